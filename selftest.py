#!/usr/bin/env python3
"""Binding demonstrations (./check.py selftest): for every layer, a valid trace / script is accepted
and the same trace / script with ONE recorded field corrupted, one event dropped or two items swapped is
rejected — i.e. the specifications are really bound to what the code does, not only to its length.
Exit 0 iff every demonstration behaves as expected."""
import copy, json, os, subprocess, sys
import check as C

T = os.path.join(C.OUT, "selftest")
results = []


def note(name, ok, detail=""):
    results.append((name, ok))
    print(("PASS " if ok else "FAIL ") + name + (("  -- " + detail) if detail else ""), flush=True)


def tlc_accepts(module, cfg, trace, tag):
    ok, res = C.validate_trace(module, cfg, trace, tag, timeout=300)
    return ok


def write_lines(path, lines):
    with open(path, "w") as f:
        for l in lines:
            f.write(json.dumps(l) + "\n")


def trace_demo(layer, drive_args, module, cfg, corruptions):
    tr = os.path.join(T, f"{layer}.ndjson")
    C.run_mtv(["drive", layer] + drive_args + [tr], tag=f"selftest-{layer}")
    lines = [json.loads(l) for l in open(tr)]
    note(f"{layer}: recorded trace accepted", tlc_accepts(module, cfg, tr, f"st-{layer}-ok"))
    for name, fn in corruptions:
        bad = fn(copy.deepcopy(lines))
        p = os.path.join(T, f"{layer}-{name}.ndjson".replace("/", "-").replace(" ", "_"))
        write_lines(p, bad)
        note(f"{layer}: {name} rejected", not tlc_accepts(module, cfg, p, f"st-{layer}-{name}"))


def first(lines, pred):
    return next(i for i, l in enumerate(lines) if pred(l))


def overlay_corrupt_value(ls):
    i = first(ls, lambda l: l["ev"] == "write" and any(q["q"] == "range" and q["r"] for q in l["obs"]))
    q = next(q for q in ls[i]["obs"] if q["q"] == "range" and q["r"])
    q["r"][0][1] = [99]
    return ls


def overlay_drop_write(ls):
    i = first(ls, lambda l: l["ev"] == "write" and l["t"] == "set")
    del ls[i]
    return ls


def overlay_commit_as_discard(ls):
    # a commit right after a set of a key that is observed afterwards
    i = next(i for i in range(1, len(ls)) if ls[i]["ev"] == "commit" and ls[i - 1]["ev"] == "write" and ls[i - 1]["t"] == "set")
    ls[i]["ev"] = "discard"
    return ls


def prefixed_corrupt_raw(ls):
    i = first(ls, lambda l: l["ev"] == "set" and l["raw"])
    ls[i]["raw"][0][1] = [200]
    return ls


def prefixed_wrong_path(ls):
    i = first(ls, lambda l: l["ev"] == "set" and len(l["p"]) == 1 and len(l["p"][0]) < 8)
    ls[i]["p"] = [ls[i]["p"][0] + [1]]
    return ls


def bank_corrupt_balance(ls):
    i = first(ls, lambda l: l["ev"] == "op" and l["ok"] == "true" and l["a"] == "mint")
    ls[i]["bal"][0][1][0][1] += 1
    return ls


def bank_flip_ok(ls):
    i = first(ls, lambda l: l["ev"] == "op" and l["ok"] == "false")
    ls[i]["ok"] = "true"
    return ls


def bech_flip_ok(ls):
    i = first(ls, lambda l: l["op"] == "validate" and l["ok"] == "false" and not all(65 <= c <= 90 or not (97 <= c <= 122) for c in l["input"]))
    ls[i]["ok"] = "true"
    ls[i]["out"] = ls[i]["input"]
    return ls


def bech_corrupt_out(ls):
    i = first(ls, lambda l: l["op"] == "humanize" and l["ok"] == "true")
    ls[i]["out"][-1] = 113 if ls[i]["out"][-1] != 113 else 112
    return ls


def script_demo(layer, module, cfg, corruptions, pick=lambda s: True, env=None):
    """spec -> impl: a TLC-emitted script passes the harness, a corrupted expectation does not"""
    c = C.emit_cfg(cfg, f"selftest_{layer}_emit.cfg")
    out = os.path.join(T, f"{layer}.scripts")
    cmd, meta = C.tlc_cmd(module, c, workers=4, coverage=False, tag=f"st-{layer}")
    e = dict(os.environ, JAVA_TOOL_OPTIONS=C.java_opts())
    with open(out, "w") as f:
        subprocess.run(["timeout", "600"] + cmd, cwd=C.SPEC, env=e, stdout=f, stderr=subprocess.DEVNULL)
    subprocess.run(["rm", "-rf", meta])
    scripts = []
    for l in open(out, errors="replace"):
        if l.startswith('"{'):
            s = json.loads(json.loads(l))
            if pick(s):
                scripts.append(s)
                if len(scripts) >= 40:
                    break
    if not scripts:
        note(f"{layer}: a suitable script was emitted", False)
        return
    def run(ss, tag):
        p = os.path.join(T, f"{layer}-{tag}.ndjson".replace("/", "-").replace(" ", "_"))
        write_lines(p, ss)
        r = C.run_mtv(["replay", layer, p], tag=f"st-{layer}-{tag}", env=dict(env or {}, MTV_VIOL_DIR=os.path.join(T, "viol")))
        return r["mismatch_count"]
    note(f"{layer}: emitted scripts accepted by the real code", run(scripts, "ok") == 0)
    for name, fn in corruptions:
        bad = [fn(copy.deepcopy(s)) for s in scripts[:10]]
        note(f"{layer}: {name} rejected", run(bad, name) == len(bad))


def chain_wrong_sender(s):
    s["expect"][0]["sender"] = "u3"
    return s


def chain_drop_behaviour(s):
    s["sc"] = s["sc"][:-1]
    s["expect"] = [e for e in s["expect"] if e["idx"] <= len(s["sc"])]
    return s


def chain_wrong_post(s):
    s["post"]["bank"].setdefault("u3", {})["eth"] = 7
    return s


def chain_flip_ok(s):
    s["ok"] = not s["ok"]
    return s


def chain_wrong_event(s):
    s["resps"][0]["ev"][0]["attrs"][0][1] = "u2"
    return s


def staking_wrong_stake(s):
    s["ops"][-1]["obs"]["dels"][0][0]["stake"] += 1
    return s


def staking_flip_ok(s):
    s["ops"][-1]["ok"] = not s["ops"][-1]["ok"]
    return s


def overlay_wrong_range(s):
    lv = s["levels"][-1]
    lv["gets"][0] = [42] if lv["gets"][0] != [42] else [41]
    return s


def stake_corrupt_reward(ls):
    i = first(ls, lambda l: l["ev"] == "call" and any(x[2] > 0 for x in l["post"]["sk"]))
    x = next(x for x in ls[i]["post"]["sk"] if x[2] > 0)
    x[2] += 1
    return ls


def stake_drop_payout(ls):
    # a block update that paid an unbonding: the recorded module call (bank transfer from the pool) is removed
    i = first(ls, lambda l: l["ev"] == "admin" and l.get("rlog"))
    ls[i]["rlog"] = []
    return ls


def stake_wrong_settled(ls):
    i = first(ls, lambda l: l["ev"] == "call" and l.get("settled") and l["settled"] != l["post"]["bank"])
    ls[i]["settled"] = ls[i]["post"]["bank"]
    return ls


def stake_hide_delegation_from_contract(ls):
    i = first(ls, lambda l: l["ev"] == "call" and any(o["reads"]["sk"] for o in l["obs"]))
    o = next(o for o in ls[i]["obs"] if o["reads"]["sk"])
    o["reads"]["sk"] = o["reads"]["sk"][1:]
    return ls


def monitor_demo():
    """the repository's own tests under the monitor hooks: accepted; with a reply dropped, a reply for a sub-message that
    does not ask for one, a failing transaction that changed the storage, a query that changed it: rejected"""
    import glob
    d = os.path.join(T, "monitor")
    subprocess.run(["rm", "-rf", d]); os.makedirs(d)
    C.sh(["cargo", "test", "--offline", "--all-features"], cwd=C.REPO, timeout=1500, env={"CW_MT_VERIF_TRACE": d, "CARGO_NET_OFFLINE": "true"})
    lines = []
    for fn in sorted(glob.glob(os.path.join(d, "*.ndjson"))):
        lines.append({"ev": "reset", "kind": "", "ok": True, "pre": "", "post": ""})
        lines += [json.loads(l) for l in open(fn)]
    def run(ls, tag):
        p = os.path.join(T, f"monitor-{tag}.ndjson")
        write_lines(p, ls)
        return tlc_accepts("Monitor.tla", "trace/Monitor.cfg", p, f"st-monitor-{tag}")
    note("monitor: the repository's tests as recorded are accepted", run(lines, "ok"))
    def drop_reply(ls):
        i = first(ls, lambda l: l["ev"] == "reply"); del ls[i]; return ls
    def spurious_reply(ls):
        i = first(ls, lambda l: l["ev"] == "sub" and l["kind"] == "never" and l["ok"])
        ls.insert(i + 1, {"ev": "reply", "kind": "", "ok": True, "pre": ls[i]["pre"], "post": ""}); return ls
    def failing_tx_writes(ls):
        i = first(ls, lambda l: l["ev"] == "tx" and not l["ok"]); ls[i]["post"] = "0000000000000001"; return ls
    def query_writes(ls):
        i = first(ls, lambda l: l["ev"] == "query"); ls[i]["post"] = "0000000000000001"; return ls
    for name, fn in (("a reply call removed", drop_reply), ("a reply after a sub-message that asks for none", spurious_reply),
                     ("a failing transaction with a changed storage digest", failing_tx_writes), ("a query with a changed storage digest", query_writes)):
        note(f"monitor: {name} rejected", not run(fn(copy.deepcopy(lines)), name.replace(" ", "_")[:30]))


def main():
    os.makedirs(T, exist_ok=True)
    C.build_harness()
    monitor_demo()
    trace_demo("chain-stake", ["12", "30"], "trace/Trace_Chain.tla", "trace/Trace_Chain_stake.cfg",
               [("accumulated reward off by one", stake_corrupt_reward), ("payout at a block update not recorded", stake_drop_payout),
                ("pending unbonding recorded as already paid", stake_wrong_settled),
                ("delegation hidden from a contract's query", stake_hide_delegation_from_contract)])
    trace_demo("overlay", ["6", "80"], "trace/Trace_Overlay.tla", "trace/Trace_Overlay.cfg",
               [("corrupted range value", overlay_corrupt_value), ("dropped write event", overlay_drop_write),
                ("commit recorded as discard", overlay_commit_as_discard)])
    trace_demo("prefixed", ["4", "30"], "trace/Trace_Prefixed.tla", "trace/Trace_Prefixed.cfg",
               [("corrupted raw value", prefixed_corrupt_raw), ("operation recorded under another namespace", prefixed_wrong_path)])
    trace_demo("bank", ["4", "80"], "trace/Trace_Bank.tla", "trace/Trace_Bank.cfg",
               [("corrupted balance", bank_corrupt_balance), ("failed operation recorded as Ok", bank_flip_ok)])
    trace_demo("bech", ["1", "1"], "trace/Trace_Bech32.tla", "trace/Trace_Bech32.cfg",
               [("rejected address recorded as accepted", bech_flip_ok), ("corrupted humanize output", bech_corrupt_out)])
    script_demo("overlay", "mc/MC_Overlay.tla", "mc/MC_Overlay_quick.cfg", [("wrong expected get", overlay_wrong_range)],
                pick=lambda s: len(s["ops"]) >= 3)
    script_demo("chain", "mc/MC_Chain.tla", "mc/MC_Chain_tree_quick.cfg",
                [("wrong expected sender", chain_wrong_sender), ("one scripted invocation removed", chain_drop_behaviour),
                 ("wrong expected post-state", chain_wrong_post), ("Ok/Err flipped", chain_flip_ok),
                 ("wrong expected event attribute", chain_wrong_event)],
                pick=lambda s: s["ok"] and len(s["sc"]) >= 2 and s["resps"])
    script_demo("staking", "mc/MC_Staking.tla", "mc/MC_Staking_quick.cfg",
                [("wrong expected delegation", staking_wrong_stake), ("Ok/Err flipped", staking_flip_ok)],
                pick=lambda s: len(s["ops"]) >= 2)
    bad = [n for n, ok in results if not ok]
    print(f"selftest: {len(results) - len(bad)} of {len(results)} demonstrations behaved as expected")
    subprocess.run(["rm", "-rf", T])
    return 1 if bad else 0


if __name__ == "__main__":
    sys.exit(main())
