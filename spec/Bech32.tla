------------------------------- MODULE Bech32 -------------------------------
(***************************************************************************)
(* BIP-173 (Bech32) and BIP-350 (Bech32m) transcribed as pure operators    *)
(* over sequences of character codes (ASCII) and bytes: charset, HRP       *)
(* expansion, the BCH checksum (Polymod), 8 <-> 5 bit regrouping, case     *)
(* rules.  Encode / Decode / Valid are the oracle against which every call *)
(* of the address helpers of cw-multi-test (MockApiBech32, MockApiBech32m, *)
(* the default MockApi, IntoAddr / IntoBech32 / IntoBech32m) is recomputed *)
(* (spec/trace/Trace_Bech32.tla).  This is an independent second           *)
(* implementation of the two BIPs; SHA-256 (addr_make) is uninterpreted.   *)
(***************************************************************************)
EXTENDS Integers, Sequences, FiniteSets, Bitwise, TLC

(* "qpzry9x8gf2tvdw0s3jn54khce6mua7l" *)
Charset == << 113, 112, 122, 114, 121, 57, 120, 56, 103, 102, 50, 116, 118, 100, 119, 48,
              115, 51, 106, 110, 53, 52, 107, 104, 99, 101, 54, 109, 117, 97, 55, 108 >>

Gen == << 996825010, 642813549, 513874426, 1027748829, 705979059 >>
       \* 0x3b6a57b2, 0x26508e6d, 0x1ea119fa, 0x3d4233dd, 0x2a1462b3

Const(variant) == IF variant = "bech32" THEN 1 ELSE 734539939      \* 0x2bc830a3

IsUpper(c) == c >= 65 /\ c <= 90
IsLower(c) == c >= 97 /\ c <= 122
Lower(c) == IF IsUpper(c) THEN c + 32 ELSE c
LowerSeq(s) == [i \in 1..Len(s) |-> Lower(s[i])]

(* value of a (lower-case) character in the charset, or -1 *)
CharVal(c) == IF \E i \in 1..32 : Charset[i] = c THEN (CHOOSE i \in 1..32 : Charset[i] = c) - 1 ELSE -1

XorIf(acc, cond, g) == IF cond THEN acc ^^ g ELSE acc

PolyStep(chk, v) ==
    LET b == shiftR(chk, 25)
        c0 == ((chk & 33554431) * 32) ^^ v
        c1 == XorIf(c0, (b & 1) = 1, Gen[1])
        c2 == XorIf(c1, (shiftR(b, 1) & 1) = 1, Gen[2])
        c3 == XorIf(c2, (shiftR(b, 2) & 1) = 1, Gen[3])
        c4 == XorIf(c3, (shiftR(b, 3) & 1) = 1, Gen[4])
    IN XorIf(c4, (shiftR(b, 4) & 1) = 1, Gen[5])

RECURSIVE PolyFrom(_, _, _)
PolyFrom(chk, vals, i) == IF i > Len(vals) THEN chk ELSE PolyFrom(PolyStep(chk, vals[i]), vals, i + 1)
Polymod(vals) == PolyFrom(1, vals, 1)

HrpExpand(h) == [i \in 1..Len(h) |-> shiftR(h[i], 5)] \o <<0>> \o [i \in 1..Len(h) |-> h[i] & 31]

(* six 5-bit checksum symbols *)
Checksum(variant, h, data) ==
    LET pm == Polymod(HrpExpand(h) \o data \o <<0, 0, 0, 0, 0, 0>>) ^^ Const(variant)
    IN [i \in 1..6 |-> shiftR(pm, 5 * (6 - i)) & 31]

(* 8 -> 5 bits with zero padding *)
RECURSIVE To5(_, _, _, _)
To5(bytes, i, acc, bits) ==
    IF bits >= 5 THEN <<shiftR(acc, bits - 5) & 31>> \o To5(bytes, i, acc & (2^(bits - 5) - 1), bits - 5)
    ELSE IF i > Len(bytes) THEN (IF bits > 0 THEN <<(acc * 2^(5 - bits)) & 31>> ELSE <<>>)
    ELSE To5(bytes, i + 1, acc * 256 + bytes[i], bits + 8)

(* 5 -> 8 bits, no padding: result [ok, bytes].  `strict`: at most 4 padding bits, all zero (what an encoder
   writes); otherwise left-over bits are dropped whatever they are (a lenient decoder) *)
RECURSIVE To8G(_, _, _, _, _)
To8G(fives, i, acc, bits, strict) ==
    IF bits >= 8
    THEN LET r == To8G(fives, i, acc & (2^(bits - 8) - 1), bits - 8, strict) IN
         [ok |-> r.ok, bytes |-> <<shiftR(acc, bits - 8) & 255>> \o r.bytes]
    ELSE IF i > Len(fives)
    THEN [ok |-> strict => (bits < 5 /\ acc = 0), bytes |-> <<>>]
    ELSE To8G(fives, i + 1, acc * 32 + fives[i], bits + 5, strict)
To8(fives, i, acc, bits) == To8G(fives, i, acc, bits, TRUE)

(* the human-readable form of `bytes` under prefix h (a sequence of lower-case character codes) *)
Encode(variant, h, bytes) ==
    LET d == To5(bytes, 1, 0, 0)
        all == d \o Checksum(variant, h, d)
    IN h \o <<49>> \o [i \in 1..Len(all) |-> Charset[all[i] + 1]]

LastOne(s) == IF \E i \in 1..Len(s) : s[i] = 49
              THEN CHOOSE i \in 1..Len(s) : s[i] = 49 /\ \A j \in (i+1)..Len(s) : s[j] # 49
              ELSE 0

HrpCharOK(c) == c >= 33 /\ c <= 126

(* decoding under a given checksum variant: [ok, hrp (as written), bytes, upper, mixed] *)
DecodeG(variant, s, strict) ==
    LET hasU == \E i \in 1..Len(s) : IsUpper(s[i])
        hasL == \E i \in 1..Len(s) : IsLower(s[i])
        ls == LowerSeq(s)
        p == LastOne(s)
        bad == [ok |-> FALSE, hrp |-> <<>>, bytes |-> <<>>, upper |-> hasU, mixed |-> hasU /\ hasL]
    IN IF hasU /\ hasL THEN bad
       ELSE IF p < 2 \/ Len(s) - p < 6 THEN bad
       ELSE LET h == SubSeq(s, 1, p - 1)
                lh == SubSeq(ls, 1, p - 1)
                vals == [i \in 1..(Len(s) - p) |-> CharVal(ls[p + i])]
            IN IF \E i \in 1..Len(h) : ~HrpCharOK(h[i]) THEN bad
               ELSE IF \E i \in 1..Len(vals) : vals[i] < 0 THEN bad
               ELSE IF Polymod(HrpExpand(lh) \o vals) # Const(variant) THEN bad
               ELSE LET r == To8G(SubSeq(vals, 1, Len(vals) - 6), 1, 0, 0, strict) IN
                    IF ~r.ok THEN bad
                    ELSE [ok |-> TRUE, hrp |-> h, bytes |-> r.bytes, upper |-> hasU, mixed |-> FALSE]

Decode(variant, s) == DecodeG(variant, s, TRUE)
(* a correctly checksummed string that is not what any encoder writes: non-zero padding bits or a superfluous
   padding group.  Whether a codec accepts it is left open by C18 (its quantifier ranges over canonical byte
   strings); if validation accepts it, it must return it unchanged *)
NonCanonicalPadding(variant, s) == ~Decode(variant, s).ok /\ DecodeG(variant, s, FALSE).ok

(* the string is a valid address of the codec (variant, prefix): decodes under that variant with
   exactly that prefix; written in lower case (what the encoder produces) *)
Valid(variant, prefix, s) ==
    LET d == Decode(variant, s) IN d.ok /\ ~d.upper /\ d.hrp = prefix
=============================================================================
