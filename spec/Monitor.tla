------------------------------ MODULE Monitor ------------------------------
(***************************************************************************)
(* The App seen from outside, as a frame-condition monitor: `root` is the  *)
(* complete root storage (an uninterpreted digest).  A transaction entry   *)
(* point (execute_multi, sudo, wasm_sudo) that returns Err leaves it       *)
(* unchanged (C01); a query never changes it (C10); anything may happen    *)
(* between entry points (direct storage access, block updates, store_code).*)
(* Trace events come from the guarded monitor hooks (cargo feature         *)
(* `verif`, CW_MT_VERIF_TRACE) while the REPOSITORY'S OWN test-suite runs: *)
(* its tests become validated traces although their own assertions never  *)
(* look at the storage after a failing call.                               *)
(***************************************************************************)
EXTENDS Naturals, Sequences, TLC, Json, IOUtils

Rec == ndJsonDeserialize(IOEnv.TRACE)

VARIABLES l, root, bad
vars == <<l, root, bad>>

Init == l = 1 /\ root = "genesis" /\ bad = <<>>

(* the abstract actions *)
TxOk(post)  == root' = post
TxErr       == UNCHANGED root
Query       == UNCHANGED root
Outside(pre) == TRUE          \* between entry points the test may do anything: the next event starts from `pre`

Step ==
    /\ l <= Len(Rec)
    /\ l' = l + 1
    /\ LET e == Rec[l] IN
       /\ root' = e.post
       /\ bad' = IF e.ev = "reset" THEN <<>>
                 ELSE IF e.ev = "query" /\ e.post # e.pre THEN <<"a query changed the storage", e.kind>>
                 ELSE IF e.ev = "tx" /\ ~e.ok /\ e.post # e.pre THEN <<"a failing transaction changed the storage", e.kind>>
                 ELSE <<>>

Spec == Init /\ [][Step]_vars

FrameInv == \/ bad = <<>>
            \/ PrintT(<<"MISMATCH line", l - 1, bad>>) /\ FALSE

TraceAccepted ==
    \/ TLCGet("stats").diameter - 1 = Len(Rec)
    \/ /\ PrintT(<<"TRACE NOT ACCEPTED: consumed", TLCGet("stats").diameter - 1, "of", Len(Rec)>>)
       /\ FALSE
=============================================================================
