------------------------------ MODULE Monitor ------------------------------
(***************************************************************************)
(* The App seen from outside, as a frame-condition monitor: `root` is the  *)
(* complete root storage (an uninterpreted digest).  A transaction entry   *)
(* point (execute_multi, sudo, wasm_sudo) that returns Err leaves it       *)
(* unchanged (C01); a query never changes it (C10); anything may happen    *)
(* between entry points (direct storage access, block updates, store_code).*)
(* Trace events come from the guarded monitor hooks (cargo feature         *)
(* `verif`, CW_MT_VERIF_TRACE) while the REPOSITORY'S OWN test-suite runs: *)
(* its tests become validated traces although their own assertions never  *)
(* look at the storage after a failing call.                               *)
(* Inside a transaction two more hooks note every executed sub-message     *)
(* (its reply_on and its result) and every call of the reply entry point:  *)
(* a reply is made exactly for the sub-messages that ask for it, directly  *)
(* after them, with their id and result (C03: ReplyDiscipline and          *)
(* RepliesOnlyForSubs of Chain.tla, here on the repository's own tests).   *)
(***************************************************************************)
EXTENDS Naturals, Sequences, TLC, Json, IOUtils

Rec == ndJsonDeserialize(IOEnv.TRACE)

VARIABLES l, root, bad, prev
vars == <<l, root, bad, prev>>

NoLine == [ev |-> "none", kind |-> "", ok |-> TRUE, pre |-> "", post |-> ""]
Init == l = 1 /\ root = "genesis" /\ bad = <<>> /\ prev = NoLine

(* a sub-message asks for a reply *)
Asks(e) == (e.ok /\ e.kind \in {"success", "always"}) \/ (~e.ok /\ e.kind \in {"error", "always"})

(* the abstract actions *)
TxOk(post)  == root' = post
TxErr       == UNCHANGED root
Query       == UNCHANGED root
Outside(pre) == TRUE          \* between entry points the test may do anything: the next event starts from `pre`

Step ==
    /\ l <= Len(Rec)
    /\ l' = l + 1
    /\ LET e == Rec[l] IN
       /\ root' = IF e.ev \in {"sub", "reply"} THEN root ELSE e.post
       /\ prev' = IF e.ev = "reset" THEN NoLine ELSE e
       /\ bad' = IF e.ev = "reset" THEN <<>>
                 ELSE IF e.ev = "reply" /\ ~(prev.ev = "sub" /\ Asks(prev) /\ prev.pre = e.pre /\ prev.ok = e.ok)
                 THEN <<"a reply that does not directly follow a sub-message asking for it (id, result)", e.pre, e.ok>>
                 ELSE IF prev.ev = "sub" /\ Asks(prev) /\ e.ev # "reply"
                 THEN <<"no reply after a sub-message that asks for one (id, reply_on, result)", prev.pre, prev.kind, prev.ok>>
                 ELSE IF e.ev = "query" /\ e.post # e.pre THEN <<"a query changed the storage", e.kind>>
                 ELSE IF e.ev = "tx" /\ ~e.ok /\ e.post # e.pre THEN <<"a failing transaction changed the storage", e.kind>>
                 ELSE <<>>

Spec == Init /\ [][Step]_vars

FrameInv == \/ bad = <<>>
            \/ PrintT(<<"MISMATCH line", l - 1, bad>>) /\ FALSE

TraceAccepted ==
    \/ TLCGet("stats").diameter - 1 = Len(Rec)
    \/ /\ PrintT(<<"TRACE NOT ACCEPTED: consumed", TLCGet("stats").diameter - 1, "of", Len(Rec)>>)
       /\ FALSE
=============================================================================
