------------------------------- MODULE Chain -------------------------------
(***************************************************************************)
(* The transactional machine of cw-multi-test: App entry points, Router,   *)
(* WasmKeeper (src/app.rs, src/wasm.rs), with the bank arithmetic of       *)
(* BankOps.  Contracts are *scripted*: what a contract does when one of    *)
(* its entry points is invoked (writes, attributes, events, data,          *)
(* sub-messages, or an error) is the next element of the transaction's     *)
(* script, consumed in invocation order.                                   *)
(*                                                                         *)
(* The evaluator below mirrors the call structure of the code, operator by *)
(* operator (anchor in brackets):                                          *)
(*   RunTx            App::execute_multi / sudo / wasm_sudo: transactional *)
(*   RouterExec       Router::execute [app.rs]                             *)
(*   BankExec         BankKeeper::execute [bank.rs]                        *)
(*   ModExec          a module slot (custom/staking/.../stargate)          *)
(*   WasmExec         WasmKeeper::execute_wasm [wasm.rs]                   *)
(*   SendFunds        WasmKeeper::send                                     *)
(*   Register         WasmKeeper::register_contract                        *)
(*   Invoke           call_execute/instantiate/reply/sudo/migrate +        *)
(*                    with_storage + verify_response                       *)
(*   AppResp          build_app_response                                   *)
(*   ProcSubs         process_response                                     *)
(*   ExecSub          execute_submsg (cache per sub-message, reply rules)  *)
(*   DoReply          reply                                                *)
(* Rolling back a cache is "continue from the state before"; committing is *)
(* "continue from the state after".                                        *)
(*                                                                         *)
(* Every run also produces a LOG of invocations and primitive effects.     *)
(* The declarative characterisations (EffectiveState, ReadsSeeEffective,   *)
(* ReplyDiscipline, EventsInOrder) are stated over that log, independently *)
(* of how the evaluator threads state, and TLC checks that both agree.     *)
(***************************************************************************)
EXTENDS BankOps, FiniteSets, SequencesExt, TLC, Json

CONSTANTS Mods,       \* module slot -> "accept" | "fail"   (custom, staking, distribution, ibc, gov, stargate, any);
                      \* staking / distribution may also be "real": StakeKeeper / DistributionKeeper with their semantics
          AddrMode    \* "simple": the default address generator (a function of code id and instance count);
                      \* "percode": a custom AddressGenerator handing out one well-known address per code id

NoData      == [t |-> "none", a |-> "", d |-> ""]
Raw(d)      == [t |-> "raw", a |-> "", d |-> d]
WrapExec(x) == IF x.t = "none" THEN NoData ELSE [t |-> "exec", a |-> "", d |-> x.d]
WrapInst(addr, x) == [t |-> "inst", a |-> addr, d |-> x.d]

NoReply == [id |-> 0, payload |-> "", ok |-> FALSE, ev |-> <<>>, data |-> NoData, is |-> FALSE, url |-> ""]

(* the type URL of the single msg_response delivered in a successful Reply (response_type_url) *)
TypeUrl(m) ==
    CASE m.k = "bank_send" -> "/cosmos.bank.v1beta1.MsgSendResponse"
      [] m.k = "bank_burn" -> "/cosmos.bank.v1beta1.MsgBurnResponse"
      [] m.k = "exec" -> "/cosmwasm.wasm.v1.MsgExecuteContractResponse"
      [] m.k = "inst" -> IF m.salt = "" THEN "/cosmwasm.wasm.v1.MsgInstantiateContractResponse"
                         ELSE "/cosmwasm.wasm.v1.MsgInstantiateContract2Response"
      [] m.k = "migrate" -> "/cosmwasm.wasm.v1.MsgMigrateContractResponse"
      [] m.k = "update_admin" -> "/cosmwasm.wasm.v1.MsgUpdateAdminResponse"
      [] m.k = "clear_admin" -> "/cosmwasm.wasm.v1.MsgClearAdminResponse"
      [] m.k = "stake" -> (CASE m.op = "delegate" -> "/cosmos.staking.v1beta1.MsgDelegateResponse"
                             [] m.op = "undelegate" -> "/cosmos.staking.v1beta1.MsgUndelegateResponse"
                             [] OTHER -> "/cosmos.staking.v1beta1.MsgBeginRedelegateResponse")
      [] m.k = "distr" -> (IF m.op = "withdraw" THEN "/cosmos.distribution.v1beta1.MsgWithdrawDelegatorRewardResponse"
                           ELSE "/cosmos.distribution.v1beta1.MsgSetWithdrawAddressResponse")
      [] m.k = "mod" /\ m.slot = "staking" -> "/cosmos.staking.v1beta1.MsgDelegateResponse"
      [] m.k = "mod" /\ m.slot = "distribution" -> "/cosmos.distribution.v1beta1.MsgSetWithdrawAddressResponse"
      [] m.k = "mod" /\ m.slot = "gov" -> "/cosmos.gov.v1beta1.MsgVoteResponse"
      [] OTHER -> "/unknown"

(* ------------------------------------------------------------------------ *)
(* strings of attribute keys / event types: sequences of chunks             *)
WS == {"SP", "TAB", "NL", "USP"}
ChunkBytes(c) == CASE c \in {"SP", "TAB", "NL", "US", "L1"} -> 1
                   [] c = "USP" -> 3
                   [] c = "L2" -> 2
                   [] OTHER -> 2          \* literal chunks are at least two bytes long
RECURSIVE TrimL(_)
TrimL(s) == IF s # <<>> /\ Head(s) \in WS THEN TrimL(Tail(s)) ELSE s
RECURSIVE TrimR(_)
TrimR(s) == IF s # <<>> /\ s[Len(s)] \in WS THEN TrimR(SubSeq(s, 1, Len(s) - 1)) ELSE s
Trim(s) == TrimR(TrimL(s))
RECURSIVE Bytes(_)
Bytes(s) == IF s = <<>> THEN 0 ELSE ChunkBytes(Head(s)) + Bytes(Tail(s))

BadKey(k)  == Trim(k) = <<>> \/ Head(Trim(k)) = "US"
BadType(t) == Bytes(Trim(t)) < 2
BadAttrs(as) == \E i \in 1..Len(as) : BadKey(as[i][1])
(* verify_response *)
BadResponse(b) == \/ BadAttrs(b.attrs)
                  \/ \E i \in 1..Len(b.events) : BadAttrs(b.events[i].attrs) \/ BadType(b.events[i].ty)

(* ------------------------------------------------------------------------ *)
(* names                                                                    *)
ClassicName(code, n) == IF AddrMode = "percode" THEN "p" \o ToString(code)
                        ELSE "c" \o ToString(code) \o "_" \o ToString(n)
SaltedName(ck, creator, salt) == "s" \o ck \o "_" \o creator \o "_" \o salt
(* instantiate2 accepts salts of 1..64 bytes only: "EMPTY" stands for the empty salt, "LONG" for one of 65 bytes
   ("MAX", 64 bytes, is an ordinary salt) *)
BadSalts == {"EMPTY", "LONG"}

RECURSIVE CoinsStr(_)
CoinsStr(coins) == IF coins = <<>> THEN ""
                   ELSE ToString(Head(coins)[2]) \o Head(coins)[1]
                        \o (IF Len(coins) > 1 THEN "," ELSE "") \o CoinsStr(Tail(coins))

Ev(ty, attrs) == [ty |-> ty, attrs |-> attrs]
CA == <<"_contract_address">>

(* the checksum symbol of a stored code: the default generator derives it from the code id; in mode "percode" the
   keeper also has a custom ChecksumGenerator that derives it from the CREATOR only, so that different codes of one
   creator share a checksum (and with it their salted addresses) *)
CkOf(id, creator) == IF AddrMode = "percode" THEN "kc_" \o creator ELSE "k" \o ToString(id)

(* ------------------------------------------------------------------------ *)
(* results                                                                  *)
Ok(x, ev, data) == [x |-> x, ok |-> TRUE, ev |-> ev, data |-> data]
Err(x)          == [x |-> x, ok |-> FALSE, ev |-> <<>>, data |-> NoData]

(* log entries *)
SysEntry(eff, note) == [t |-> "sys", eff |-> eff, note |-> note, dead |-> FALSE, killedAt |-> 0]

AddLog(x, e) == [x EXCEPT !.log = Append(@, e)]

(* mark entries from..Len(log) dead (those not dead yet) *)
Kill(x, from) ==
    LET L == Len(x.log) IN
    [x EXCEPT !.log = [i \in 1..L |-> IF i >= from /\ ~x.log[i].dead
                                      THEN [x.log[i] EXCEPT !.dead = TRUE, !.killedAt = L]
                                      ELSE x.log[i]]]

(* ------------------------------------------------------------------------ *)
(* state helpers                                                            *)
CsOf(st, c) == IF c \in DOMAIN st.cs THEN st.cs[c] ELSE [k \in {} |-> ""]
PutFn(f, k, v) == [y \in DOMAIN f \cup {k} |-> IF y = k THEN v ELSE f[y]]
DelFn(f, k) == [y \in DOMAIN f \ {k} |-> f[y]]

RECURSIVE ApplyWrites(_, _)
ApplyWrites(m, ws) == IF ws = <<>> THEN m
                      ELSE LET w == Head(ws) IN
                           ApplyWrites(IF w[2] = "DEL" THEN DelFn(m, w[1]) ELSE PutFn(m, w[1], w[2]), Tail(ws))


(* ------------------------------------------------------------------------ *)
(* staking and distribution with their real semantics (src/staking.rs), for configurations with
   Mods.staking = Mods.distribution = "real".  Two validators; the annual rate is YEAR/5, so a staked
   token earns 1/5 token per second at v1 (no commission) and 1/10 at v2 (50 % commission): every
   intermediate value of the code's 18-digit decimals is exact and rewards are counted in TENTHS of a
   token.  No slashing here (Staking.tla has it).  st.sk = [sh, lc, q, wa]:
     sh  "d|v" -> [d, v, s (whole tokens), r (tenths)]     entries exist only while s > 0 (STAKES)
     lc  validator -> time of its last reward calculation  (ValidatorInfo)
     q   the unbonding queue, FIFO: [d, v, amt, at]
     wa  delegator -> withdraw address (missing = itself) *)
Validators == {"v1", "v2"}
Rate(v) == IF v = "v1" THEN 2 ELSE 1
UnbondSecs == 10
Bonded == "eth"
Pool == "pool"                       \* the staking module's own account
SKey(d, v) == d \o "|" \o v

(* update_rewards *)
SkUpdateRewards(sk, v, t) ==
    IF sk.lc[v] >= t THEN sk
    ELSE LET dt == t - sk.lc[v] IN
         [sk EXCEPT !.lc[v] = t,
                    !.sh = [k \in DOMAIN sk.sh |->
                               IF sk.sh[k].v = v THEN [sk.sh[k] EXCEPT !.r = @ + sk.sh[k].s * dt * Rate(v)] ELSE sk.sh[k]]]

(* add_stake / remove_stake after the denomination check: [ok, sk] *)
SkAdd(sk0, d, v, a, t) ==
    IF v \notin Validators THEN [ok |-> FALSE, sk |-> sk0]
    ELSE LET sk == SkUpdateRewards(sk0, v, t)
             k == SKey(d, v)
             cur == IF k \in DOMAIN sk.sh THEN sk.sh[k] ELSE [d |-> d, v |-> v, s |-> 0, r |-> 0]
             new == [cur EXCEPT !.s = @ + a]
         IN [ok |-> TRUE, sk |-> [sk EXCEPT !.sh = IF new.s = 0 THEN DelFn(@, k) ELSE PutFn(@, k, new)]]

SkRemove(sk0, d, v, a, t) ==
    IF v \notin Validators THEN [ok |-> FALSE, sk |-> sk0]
    ELSE LET sk == SkUpdateRewards(sk0, v, t)
             k == SKey(d, v)
         IN IF k \notin DOMAIN sk.sh THEN [ok |-> FALSE, sk |-> sk0]
            ELSE IF a > sk.sh[k].s THEN [ok |-> FALSE, sk |-> sk0]
            ELSE LET new == [sk.sh[k] EXCEPT !.s = @ - a] IN
                 [ok |-> TRUE, sk |-> [sk EXCEPT !.sh = IF new.s = 0 THEN DelFn(@, k) ELSE PutFn(@, k, new)]]

(* remove_rewards: whole tokens are paid, the fraction is dropped *)
SkClaim(sk0, d, v, t) ==
    LET sk == SkUpdateRewards(sk0, v, t)
        k == SKey(d, v)
    IN [sk EXCEPT !.sh[k].r = 0]

(* StakeKeeper::slash by p = 1/2 ("half", explored only when every delegation to v is even, so that the scaled
   shares stay whole) or p = 1 ("all"): rewards are brought up to date first and are kept; delegations and the
   pending unbondings from v are scaled (unbondings rounded down); if nothing remains the entries are removed
   together with their rewards *)
SlashKeep(p, n) == IF p = "half" THEN n \div 2 ELSE 0
SlashExact(sk, v, p) == p = "all" \/ \A k \in DOMAIN sk.sh : sk.sh[k].v = v => sk.sh[k].s % 2 = 0
SkSlash(sk0, v, p, t) ==
    LET sk == SkUpdateRewards(sk0, v, t)
        scaled == [k \in DOMAIN sk.sh |-> IF sk.sh[k].v = v THEN [sk.sh[k] EXCEPT !.s = SlashKeep(p, @)] ELSE sk.sh[k]]
        gone == {k \in DOMAIN scaled : scaled[k].v = v /\ scaled[k].s = 0}
    IN [sk EXCEPT !.sh = [k \in DOMAIN scaled \ gone |-> scaled[k]],
                  !.q = [i \in 1..Len(sk.q) |-> IF sk.q[i].v = v THEN [sk.q[i] EXCEPT !.amt = SlashKeep(p, @)] ELSE sk.q[i]]]

SkReceiver(sk, d) == IF d \in DOMAIN sk.wa THEN sk.wa[d] ELSE d

(* what queries show at time t: "d|v" -> <<delegation, accumulated reward in whole tokens>> *)
SkView(st, t) ==
    [k \in DOMAIN st.sk.sh |->
        LET e == st.sk.sh[k]
            dt == IF t > st.sk.lc[e.v] THEN t - st.sk.lc[e.v] ELSE 0
        IN << e.s, (e.r + e.s * dt * Rate(e.v)) \div 10 >>]

(* primitive effects, used both by the evaluator and by the declarative replay *)
ApplyEff(st, e) ==
    CASE e.e = "cs"   -> [st EXCEPT !.cs = PutFn(@, e.c, ApplyWrites(CsOf(st, e.c), e.ws))]
      [] e.e = "move" -> [st EXCEPT !.bank = SendFromTo(@, e.from, e.to, e.coins).bal]
      [] e.e = "burn" -> [st EXCEPT !.bank = BurnFrom(@, e.from, e.coins).bal]
      [] e.e = "mint" -> [st EXCEPT !.bank = MintTo(@, e.to, e.coins).bal]
      [] e.e = "reg"  -> [st EXCEPT !.reg = PutFn(@, e.c, e.info)]
      [] e.e = "sk_add"    -> [st EXCEPT !.sk = SkAdd(@, e.d, e.v, e.a, e.t).sk]
      [] e.e = "sk_remove" -> [st EXCEPT !.sk = SkRemove(@, e.d, e.v, e.a, e.t).sk]
      [] e.e = "sk_queue"  -> [st EXCEPT !.sk.q = Append(@, [d |-> e.d, v |-> e.v, amt |-> e.a, at |-> e.t + UnbondSecs])]
      [] e.e = "sk_claim"  -> [st EXCEPT !.sk = SkClaim(@, e.d, e.v, e.t)]
      [] e.e = "sk_slash"  -> [st EXCEPT !.sk = SkSlash(@, e.v, e.p, e.t)]
      [] e.e = "sk_setw"   -> [st EXCEPT !.sk.wa = IF e.d = e.to THEN DelFn(@, e.d) ELSE PutFn(@, e.d, e.to)]

RECURSIVE ApplyEffs(_, _)
ApplyEffs(st, es) == IF es = <<>> THEN st ELSE ApplyEffs(ApplyEff(st, Head(es)), Tail(es))

(* ------------------------------------------------------------------------ *)
(* the evaluator                                                            *)
RECURSIVE RouterExec(_, _, _), WasmExec(_, _, _), ProcSubs(_, _, _, _, _), ExecSub(_, _, _), DoReply(_, _, _)

(* BankKeeper::execute *)
BankExec(x0, sender, m, note) ==
    (* the bank module is handed the coin list exactly as it was written in the message (zero coins, repetitions, order) *)
    LET x == [x0 EXCEPT !.rlog = Append(@, [slot |-> "bank", sender |-> sender, payload |-> m.k, coins |-> CoinsStr(m.coins)])] IN
    IF m.k = "bank_send"
    THEN LET r == SendFromTo(x.st.bank, sender, m.to, m.coins) IN
         IF r.ok
         THEN Ok(AddLog([x EXCEPT !.st.bank = r.bal],
                        SysEntry(<<[e |-> "move", from |-> sender, to |-> m.to, coins |-> m.coins]>>, note)),
                 << Ev(<<"transfer">>, << <<<<"recipient">>, m.to>>, <<<<"sender">>, sender>>,
                                          <<<<"amount">>, CoinsStr(m.coins)>> >>) >>,
                 NoData)
         ELSE Err(x)
    ELSE LET r == BurnFrom(x.st.bank, sender, m.coins) IN
         IF r.ok
         THEN Ok(AddLog([x EXCEPT !.st.bank = r.bal],
                        SysEntry(<<[e |-> "burn", from |-> sender, coins |-> m.coins]>>, note)), <<>>, NoData)
         ELSE Err(x)

(* a module slot: records (slot, sender, payload); the slot's configuration decides the result *)
ModExec(x, sender, m) ==
    LET x2 == [x EXCEPT !.rlog = Append(@, [slot |-> m.slot, sender |-> sender, payload |-> m.payload])] IN
    IF Mods[m.slot] = "accept" THEN Ok(x2, <<>>, NoData) ELSE Err(x2)

(* StakeKeeper::execute.  The staking entry of the log carries the event the message returns (the
   nested bank transfer's event is not kept by the module) *)
StakeEntry(effs, ev) == [t |-> "sys", eff |-> effs, note |-> "stakemsg", ev |-> ev, dead |-> FALSE, killedAt |-> 0]
CoinStr(c) == ToString(c[2]) \o c[1]

StakeExec(x0, sender, m) ==
    LET x == [x0 EXCEPT !.rlog = Append(@, [slot |-> "staking", sender |-> sender, payload |-> m.op])]
        t == x.block.t
        a == m.coin[2]
    IN
    CASE m.op = "delegate" ->
           IF a = 0 \/ m.coin[1] # Bonded THEN Err(x)
           ELSE LET r == SkAdd(x.st.sk, sender, m.v, a, t) IN
                IF ~r.ok THEN Err(x)
                ELSE LET ev == << Ev(<<"delegate">>, << <<<<"validator">>, m.v>>, <<<<"amount">>, CoinStr(m.coin)>>,
                                                         <<<<"new_shares">>, ToString(a)>> >>) >>
                         x1 == AddLog([x EXCEPT !.st.sk = r.sk],
                                      StakeEntry(<<[e |-> "sk_add", d |-> sender, v |-> m.v, a |-> a, t |-> t]>>, ev))
                         b == BankExec(x1, sender, [k |-> "bank_send", to |-> Pool, coins |-> <<m.coin>>], "stake")
                     IN IF ~b.ok THEN Err(b.x) ELSE Ok(b.x, ev, NoData)
      [] m.op = "undelegate" ->
           IF m.coin[1] # Bonded \/ a = 0 THEN Err(x)
           ELSE LET r == SkRemove(x.st.sk, sender, m.v, a, t) IN
                IF ~r.ok THEN Err(x)
                ELSE LET ev == << Ev(<<"unbond">>, << <<<<"validator">>, m.v>>, <<<<"amount">>, CoinStr(m.coin)>>,
                                                       <<<<"completion_time">>, "2022-09-27T14:00:00+00:00">> >>) >>
                         qe == [d |-> sender, v |-> m.v, amt |-> a, at |-> t + UnbondSecs]
                     IN Ok(AddLog([x EXCEPT !.st.sk = [r.sk EXCEPT !.q = Append(@, qe)]],
                                  StakeEntry(<<[e |-> "sk_remove", d |-> sender, v |-> m.v, a |-> a, t |-> t],
                                               [e |-> "sk_queue", d |-> sender, v |-> m.v, a |-> a, t |-> t]>>, ev)),
                           ev, NoData)
      [] m.op = "redelegate" ->
           IF m.coin[1] # Bonded THEN Err(x)
           ELSE LET r1 == SkRemove(x.st.sk, sender, m.v, a, t) IN
                IF ~r1.ok THEN Err(x)
                ELSE LET r2 == SkAdd(r1.sk, sender, m.v2, a, t) IN
                     IF ~r2.ok THEN Err(x)
                     ELSE LET ev == << Ev(<<"redelegate">>, << <<<<"source_validator">>, m.v>>, <<<<"destination_validator">>, m.v2>>,
                                                                <<<<"amount">>, CoinStr(m.coin)>> >>) >>
                          IN Ok(AddLog([x EXCEPT !.st.sk = r2.sk],
                                       StakeEntry(<<[e |-> "sk_remove", d |-> sender, v |-> m.v, a |-> a, t |-> t],
                                                    [e |-> "sk_add", d |-> sender, v |-> m.v2, a |-> a, t |-> t]>>, ev)),
                                ev, NoData)

(* DistributionKeeper::execute *)
DistrExec(x0, sender, m) ==
    LET x == [x0 EXCEPT !.rlog = Append(@, [slot |-> "distribution", sender |-> sender, payload |-> m.op])]
        t == x.block.t
    IN
    CASE m.op = "withdraw" ->
           IF m.v \notin Validators THEN Err(x)
           ELSE LET sk == SkUpdateRewards(x.st.sk, m.v, t)
                    k == SKey(sender, m.v)
                IN IF k \notin DOMAIN sk.sh THEN Err(x)
                   ELSE LET amt == sk.sh[k].r \div 10
                            to == SkReceiver(sk, sender)
                            coins == << <<Bonded, amt>> >>
                            mm == MintTo(x.st.bank, to, coins)
                            ev == << Ev(<<"withdraw_delegator_reward">>, << <<<<"validator">>, m.v>>, <<<<"sender">>, sender>>,
                                                                            <<<<"amount">>, CoinStr(<<Bonded, amt>>)>> >>) >>
                            xm == [x EXCEPT !.rlog = Append(@, [slot |-> "bank", sender |-> "", payload |-> "sudo_mint"])]   \* the mint goes through the router
                        IN IF ~mm.ok THEN Err(xm)                     \* minting nothing is an error
                           ELSE Ok(AddLog([xm EXCEPT !.st.sk = SkClaim(x.st.sk, sender, m.v, t), !.st.bank = mm.bal],
                                          StakeEntry(<<[e |-> "sk_claim", d |-> sender, v |-> m.v, t |-> t],
                                                       [e |-> "mint", to |-> to, coins |-> coins]>>, ev)),
                                   ev, NoData)
      [] m.op = "set_withdraw" ->
           IF m.to = "bad" THEN Err(x)                                \* not an address
           ELSE LET ev == << Ev(<<"set_withdraw_address">>, << <<<<"withdraw_address">>, m.to>> >>) >> IN
                Ok(AddLog([x EXCEPT !.st.sk.wa = IF m.to = sender THEN DelFn(@, sender) ELSE PutFn(@, sender, m.to)],
                          StakeEntry(<<[e |-> "sk_setw", d |-> sender, to |-> m.to]>>, ev)),
                   ev, NoData)

(* process_queue, run by App::set_block / update_block outside any transaction *)
RECURSIVE PayQueue(_, _)
PayQueue(st, t) ==
    IF st.sk.q = <<>> \/ Head(st.sk.q).at > t THEN st
    ELSE LET u == Head(st.sk.q)
             paid == IF u.amt = 0 THEN st.bank ELSE SendFromTo(st.bank, Pool, u.d, << <<Bonded, u.amt>> >>).bal
         IN PayQueue([st EXCEPT !.bank = paid, !.sk.q = Tail(@)], t)

(* the module calls process_queue makes: one bank transfer from the module's account per matured, non-empty entry *)
RECURSIVE PayoutLog(_, _)
PayoutLog(q, t) ==
    IF q = <<>> \/ Head(q).at > t THEN <<>>
    ELSE (IF Head(q).amt = 0 THEN <<>> ELSE <<[slot |-> "bank", sender |-> Pool, payload |-> "bank_send"]>>) \o PayoutLog(Tail(q), t)

(* everything still unbonding paid out (what a far-future block update does) *)
Settled(st) == PayQueue(st, 2000000000).bank

(* Router::query: a query of a kind that has a module behind it is answered by exactly that module, as that
   module is configured; queries change nothing (C10) and are not part of the transaction log.  The harness
   issues one query per kind from inside every contract invocation and through App::wrap and checks this table
   against what the recording modules saw (category qroute). *)
QuerySlotOf(kind) == CASE kind = "custom" -> "custom" [] kind = "staking" -> "staking" [] kind = "ibc" -> "ibc"
                       [] kind = "stargate" -> "stargate" [] kind = "grpc" -> "any"
QueryAnswers(kind) == Mods[QuerySlotOf(kind)] \in {"accept", "real"}

(* WasmKeeper::send: nothing happens (and no event is kept) for an empty coin list *)
SendFunds(x, from, to, coins) ==
    IF coins = <<>> THEN Ok(x, <<>>, NoData)
    ELSE LET r == BankExec(x, from, [k |-> "bank_send", to |-> to, coins |-> coins], "funds") IN
         IF r.ok THEN Ok(r.x, <<>>, NoData) ELSE r

(* one entry-point invocation: with_storage + the contract + verify_response *)
Invoke(x, entry, c, sender, funds, rep) ==
    IF x.need THEN Err(x)
    ELSE IF c \notin DOMAIN x.st.reg THEN Err(x)                  \* contract_data fails
    ELSE IF x.st.reg[c].code \notin DOMAIN x.codes THEN Err(x)     \* contract_code fails
    ELSE IF x.codes[x.st.reg[c].code].flavour = 4 /\ entry \in {"sudo", "reply", "migrate"}
    THEN Err(x)                  \* flavour 4: a ContractWrapper with the mandatory entry points only - "not implemented"
    ELSE IF x.pos > Len(x.sc)
    THEN Err([x EXCEPT !.need = TRUE, !.info = [entry |-> entry, c |-> c, pos |-> x.pos]])
    ELSE LET b == x.sc[x.pos]
             good == ~b.fail /\ ~BadResponse(b)
             e == [t |-> "inv", idx |-> x.pos, entry |-> entry, c |-> c,
                   flavour |-> x.codes[x.st.reg[c].code].flavour,
                   sender |-> sender, funds |-> funds, block |-> x.block, reply |-> rep,
                   reads |-> x.st, skview |-> SkView(x.st, x.block.t),
                   eff |-> IF good /\ b.writes # <<>> THEN <<[e |-> "cs", c |-> c, ws |-> b.writes]>> ELSE <<>>,
                   dead |-> FALSE, killedAt |-> 0]
             x2 == AddLog([x EXCEPT !.pos = @ + 1], e)
         IN IF ~good THEN Err(x2)
            ELSE [x |-> IF b.writes = <<>> THEN x2
                        ELSE [x2 EXCEPT !.st.cs = PutFn(@, c, ApplyWrites(CsOf(x.st, c), b.writes))],
                  ok |-> TRUE, ev |-> <<>>, data |-> NoData, b |-> b]

(* build_app_response: entry event, `wasm` event iff attributes, custom events renamed *)
AppEvents(c, entryEv, b) ==
    <<entryEv>>
    \o (IF b.attrs = <<>> THEN <<>> ELSE << Ev(<<"wasm">>, << <<CA, c>> >> \o b.attrs) >>)
    \o [i \in 1..Len(b.events) |-> Ev(<<"wasm-">> \o b.events[i].ty, << <<CA, c>> >> \o b.events[i].attrs)]

(* reply *)
DoReply(x, c, rep) ==
    LET r == Invoke(x, "reply", c, "", <<>>, rep) IN
    IF ~r.ok THEN Err(r.x)
    ELSE ProcSubs(r.x, c,
                  AppEvents(c, Ev(<<"reply">>, << <<CA, c>>, <<<<"mode">>, IF rep.ok THEN "handle_success" ELSE "handle_failure">> >>), r.b),
                  r.b.data, r.b.subs)

(* execute_submsg *)
ExecSub(x, c, sm) ==
    LET from == Len(x.log) + 1
        r == RouterExec(x, c, sm.msg)
        sub == [t |-> "sub", owner |-> c, id |-> sm.id, on |-> sm.on, ok |-> r.ok, first |-> from,
                noreply |-> (c \in DOMAIN x.st.reg /\ x.st.reg[c].code \in DOMAIN x.codes /\ x.codes[x.st.reg[c].code].flavour = 4),
                eff |-> <<>>, dead |-> FALSE, killedAt |-> 0]
    IN IF r.x.need THEN Err(r.x)
       ELSE IF r.ok
       THEN LET x2 == AddLog(r.x, sub) IN
            IF sm.on \in {"success", "always"}
            THEN LET rr == DoReply(x2, c, [id |-> sm.id, payload |-> sm.payload, ok |-> TRUE,
                                           ev |-> r.ev, data |-> r.data, is |-> TRUE, url |-> TypeUrl(sm.msg)]) IN
                 IF rr.ok THEN Ok(rr.x, r.ev \o rr.ev, rr.data) ELSE Err(rr.x)
            ELSE Ok(x2, r.ev, NoData)
       ELSE (* discard the cache: continue from the state before the sub-message *)
            LET x2 == AddLog([Kill(r.x, from) EXCEPT !.st = x.st], sub) IN
            IF sm.on \in {"error", "always"}
            THEN DoReply(x2, c, [id |-> sm.id, payload |-> sm.payload, ok |-> FALSE,
                                 ev |-> <<>>, data |-> NoData, is |-> TRUE, url |-> ""])
            ELSE Err(x2)

(* process_response *)
ProcSubs(x, c, ev, data, subs) ==
    IF subs = <<>> THEN Ok(x, ev, data)
    ELSE LET r == ExecSub(x, c, Head(subs)) IN
         IF ~r.ok THEN Err(r.x)
         ELSE ProcSubs(r.x, c, ev \o r.ev, IF r.data.t # "none" THEN r.data ELSE data, Tail(subs))

(* register_contract *)
InstanceCount(st) == Cardinality(DOMAIN st.reg)

Register(x, sender, m) ==
    IF m.code \notin DOMAIN x.codes THEN [ok |-> FALSE, x |-> x, c |-> ""]
    ELSE IF m.salt \in BadSalts THEN [ok |-> FALSE, x |-> x, c |-> ""]
    ELSE LET c == IF m.salt = "" THEN ClassicName(m.code, InstanceCount(x.st))
                  ELSE SaltedName(x.codes[m.code].ck, sender, m.salt)
             info == [code |-> m.code, creator |-> sender, admin |-> m.admin, label |-> m.label]
         IN IF c \in DOMAIN x.st.reg THEN [ok |-> FALSE, x |-> x, c |-> c]
            ELSE [ok |-> TRUE, c |-> c,
                  x |-> AddLog([x EXCEPT !.st.reg = PutFn(@, c, info)],
                               SysEntry(<<[e |-> "reg", c |-> c, info |-> info]>>, "reg"))]

(* execute_wasm *)
WasmExec(x, sender, m) ==
    CASE m.k = "exec" ->
           LET r1 == SendFunds(x, sender, m.to, m.funds) IN
           IF ~r1.ok THEN Err(r1.x)
           ELSE LET r2 == Invoke(r1.x, "execute", m.to, sender, m.funds, NoReply) IN
                IF ~r2.ok THEN Err(r2.x)
                ELSE LET r3 == ProcSubs(r2.x, m.to, AppEvents(m.to, Ev(<<"execute">>, << <<CA, m.to>> >>), r2.b),
                                        r2.b.data, r2.b.subs) IN
                     IF ~r3.ok THEN Err(r3.x) ELSE Ok(r3.x, r3.ev, WrapExec(r3.data))
      [] m.k = "inst" ->
           IF m.label = "" THEN Err(x)
           ELSE LET g == Register(x, sender, m) IN
                IF ~g.ok THEN Err(g.x)
                ELSE LET r1 == SendFunds(g.x, sender, g.c, m.funds) IN
                     IF ~r1.ok THEN Err(r1.x)
                     ELSE LET r2 == Invoke(r1.x, "instantiate", g.c, sender, m.funds, NoReply) IN
                          IF ~r2.ok THEN Err(r2.x)
                          ELSE LET r3 == ProcSubs(r2.x, g.c,
                                                  AppEvents(g.c, Ev(<<"instantiate">>, << <<CA, g.c>>, <<<<"code_id">>, ToString(m.code)>> >>), r2.b),
                                                  r2.b.data, r2.b.subs) IN
                               IF ~r3.ok THEN Err(r3.x) ELSE Ok(r3.x, r3.ev, WrapInst(g.c, r3.data))
      [] m.k = "migrate" ->
           IF m.code \notin DOMAIN x.codes \/ m.to \notin DOMAIN x.st.reg THEN Err(x)
           ELSE IF x.st.reg[m.to].admin # sender \/ sender = "" THEN Err(x)
           ELSE LET info == [x.st.reg[m.to] EXCEPT !.code = m.code]
                    x1 == AddLog([x EXCEPT !.st.reg = PutFn(@, m.to, info)],
                                 SysEntry(<<[e |-> "reg", c |-> m.to, info |-> info]>>, "reg"))
                    r2 == Invoke(x1, "migrate", m.to, "", <<>>, NoReply)
                IN IF ~r2.ok THEN Err(r2.x)
                   ELSE LET r3 == ProcSubs(r2.x, m.to,
                                           AppEvents(m.to, Ev(<<"migrate">>, << <<CA, m.to>>, <<<<"code_id">>, ToString(m.code)>> >>), r2.b),
                                           r2.b.data, r2.b.subs) IN
                        IF ~r3.ok THEN Err(r3.x) ELSE Ok(r3.x, r3.ev, WrapExec(r3.data))
      [] m.k \in {"update_admin", "clear_admin"} ->
           IF m.to \notin DOMAIN x.st.reg THEN Err(x)
           ELSE IF x.st.reg[m.to].admin # sender \/ sender = "" THEN Err(x)
           ELSE LET info == [x.st.reg[m.to] EXCEPT !.admin = IF m.k = "clear_admin" THEN "" ELSE m.admin] IN
                Ok(AddLog([x EXCEPT !.st.reg = PutFn(@, m.to, info)],
                          SysEntry(<<[e |-> "reg", c |-> m.to, info |-> info]>>, "reg")), <<>>, NoData)

(* Router::execute *)
RouterExec(x, sender, m) ==
    IF x.need THEN Err(x)
    ELSE CASE m.k \in {"bank_send", "bank_burn"} -> BankExec(x, sender, m, "msg")
           [] m.k = "mod" -> ModExec(x, sender, m)
           [] m.k = "stake" -> StakeExec(x, sender, m)
           [] m.k = "distr" -> DistrExec(x, sender, m)
           [] OTHER -> WasmExec([x EXCEPT !.rlog = Append(@, [slot |-> "wasm", sender |-> sender, payload |-> m.k])], sender, m)

(* WasmKeeper::sudo *)
WasmSudo(x, c) ==
    LET r == Invoke(x, "sudo", c, "", <<>>, NoReply) IN
    IF ~r.ok THEN Err(r.x)
    ELSE ProcSubs(r.x, c, AppEvents(c, Ev(<<"sudo">>, << <<CA, c>> >>), r.b), r.b.data, r.b.subs)

RECURSIVE RunMsgs(_, _, _, _)
RunMsgs(x, sender, msgs, acc) ==
    IF msgs = <<>> THEN [x |-> x, ok |-> TRUE, resps |-> acc]
    ELSE LET r == RouterExec(x, sender, Head(msgs)) IN
         IF ~r.ok THEN [x |-> r.x, ok |-> FALSE, resps |-> <<>>]
         ELSE RunMsgs(r.x, sender, Tail(msgs), Append(acc, [ev |-> r.ev, data |-> r.data]))

NewCtx(st, codes, block, sc) ==
    [st |-> st, codes |-> codes, block |-> block, sc |-> sc, pos |-> 1, log |-> <<>>,
     need |-> FALSE, info |-> [entry |-> "", c |-> "", pos |-> 0], rlog |-> <<>>]

(* a top-level call in a transaction: App::execute_multi / sudo / wasm_sudo.
   Result: need/info (script too short), ok, responses, post state, log, rlog *)
RunTx(st, codes, block, call, sc) ==
    LET x0 == NewCtx(st, codes, block, sc)
        r == CASE call.k = "execute" -> RunMsgs(x0, call.sender, call.msgs, <<>>)
               [] call.k = "sudo_wasm" ->
                    LET q == WasmSudo(x0, call.c) IN
                    [x |-> q.x, ok |-> q.ok, resps |-> IF q.ok THEN <<[ev |-> q.ev, data |-> q.data]>> ELSE <<>>]
               [] call.k = "sudo_mint" ->
                    LET q == MintTo(st.bank, call.to, call.coins)
                        x0m == [x0 EXCEPT !.rlog = <<[slot |-> "bank", sender |-> "", payload |-> "sudo_mint"]>>] IN
                    IF q.ok THEN [x |-> AddLog([x0m EXCEPT !.st.bank = q.bal],
                                               SysEntry(<<[e |-> "mint", to |-> call.to, coins |-> call.coins]>>, "mint")),
                                  ok |-> TRUE, resps |-> <<[ev |-> <<>>, data |-> NoData]>>]
                    ELSE [x |-> x0m, ok |-> FALSE, resps |-> <<>>]
               [] call.k = "sudo_custom" ->         \* App::sudo(SudoMsg::Custom) as one would expect it: handed to the custom module.
                                                    \* NOT offered by any menu: Router::sudo has `_ => unimplemented!()` for it (DESIGN 0.2)
                    LET xs == [x0 EXCEPT !.rlog = <<[slot |-> "custom", sender |-> "", payload |-> "sudo"]>>] IN
                    IF Mods["custom"] = "accept" THEN [x |-> xs, ok |-> TRUE, resps |-> <<[ev |-> <<>>, data |-> NoData]>>]
                    ELSE [x |-> xs, ok |-> FALSE, resps |-> <<>>]
               [] call.k = "sudo_slash" ->          \* App::sudo(SudoMsg::Staking(StakingSudo::Slash)); p above one is "over"
                    IF call.p = "over" \/ call.v \notin Validators \/ Mods["staking"] # "real"
                    THEN [x |-> x0, ok |-> FALSE, resps |-> <<>>]
                    ELSE [x |-> AddLog([x0 EXCEPT !.st.sk = SkSlash(@, call.v, call.p, block.t)],
                                       SysEntry(<<[e |-> "sk_slash", v |-> call.v, p |-> call.p, t |-> block.t]>>, "slash")),
                          ok |-> TRUE, resps |-> <<[ev |-> <<>>, data |-> NoData]>>]
        xf == IF r.ok THEN r.x ELSE Kill(r.x, 1)
    IN [need |-> r.x.need, info |-> r.x.info, ok |-> r.ok, resps |-> r.resps,
        post |-> IF r.ok THEN r.x.st ELSE st, log |-> xf.log, rlog |-> r.x.rlog, used |-> r.x.pos - 1]

(* ------------------------------------------------------------------------ *)
(* calls outside transactions and the empty chain                           *)
Block0 == [h |-> 12345, t |-> 1571797419]
EmptySk == [sh |-> [k \in {} |-> 0], lc |-> [v \in Validators |-> Block0.t], q |-> <<>>, wa |-> [d \in {} |-> ""]]
EmptyState == [bank |-> [a \in {} |-> ZeroRow], reg |-> [c \in {} |-> 0], cs |-> [c \in {} |-> 0], sk |-> EmptySk]

MaxOf(S) == IF S = {} THEN 0 ELSE CHOOSE m \in S : \A y \in S : y <= m

(* calls outside transactions; result [ok, codes, block, val] *)
AdminCall(cd, blk, call) ==
    CASE call.k = "store_code" ->
           LET id == MaxOf(DOMAIN cd) + 1 IN
           [ok |-> TRUE, val |-> id, block |-> blk,
            codes |-> PutFn(cd, id, [creator |-> call.creator, flavour |-> call.flavour, ck |-> CkOf(id, call.creator)])]
      [] call.k = "store_code_with_id" ->
           IF call.id = 0 \/ call.id \in DOMAIN cd THEN [ok |-> FALSE, val |-> 0, block |-> blk, codes |-> cd]
           ELSE [ok |-> TRUE, val |-> call.id, block |-> blk,
                 codes |-> PutFn(cd, call.id, [creator |-> call.creator, flavour |-> call.flavour, ck |-> CkOf(call.id, call.creator)])]
      [] call.k = "duplicate_code" ->
           IF call.id \notin DOMAIN cd THEN [ok |-> FALSE, val |-> 0, block |-> blk, codes |-> cd]
           ELSE LET id == MaxOf(DOMAIN cd) + 1 IN
                [ok |-> TRUE, val |-> id, block |-> blk, codes |-> PutFn(cd, id, cd[call.id])]
      [] call.k = "set_block" ->
           [ok |-> TRUE, val |-> 0, block |-> [h |-> call.h, t |-> call.t], codes |-> cd]
      [] call.k = "next_block" ->
           [ok |-> TRUE, val |-> 0, block |-> [h |-> blk.h + 1, t |-> blk.t + 5], codes |-> cd]
      [] call.k = "advance" ->             \* update_block with a closure adding one block and call.dt seconds, or
                                           \* (via = "set") set_block with the SAME height and the new time
           [ok |-> TRUE, val |-> 0, block |-> [h |-> IF call.via = "set" THEN blk.h ELSE blk.h + 1, t |-> blk.t + call.dt], codes |-> cd]

IsAdmin(call) == call.k \in {"store_code", "store_code_with_id", "duplicate_code", "set_block", "next_block", "advance"}

(* set_block / update_block run the staking module's process_queue against the root storage *)
AdminRlog(st, call, blk) == IF call.k \in {"set_block", "next_block", "advance"} THEN PayoutLog(st.sk.q, blk.t) ELSE <<>>
AfterAdmin(st, call, blk) == IF call.k \in {"set_block", "next_block", "advance"} THEN PayQueue(st, blk.t) ELSE st

(* ------------------------------------------------------------------------ *)
(* declarative characterisations over the log                               *)

(* entry i is visible at log position j: it happened before and was not rolled back by then *)
VisibleAt(log, i, j) == i < j /\ (~log[i].dead \/ log[i].killedAt >= j)

RECURSIVE Replay(_, _, _, _)
Replay(st, log, i, j) ==
    IF i >= j \/ i > Len(log) THEN st
    ELSE Replay(IF VisibleAt(log, i, j) THEN ApplyEffs(st, log[i].eff) ELSE st, log, i + 1, j)

(* the state that results from the effects that are effective up to position j *)
EffectiveState(pre, log, j) == Replay(pre, log, 1, j)

(* C01/C02: the post state is the pre state plus the effects of effective nodes only (none on Err) *)
PostIsEffective(pre, r) == r.post = EffectiveState(pre, r.log, Len(r.log) + 1)
AtomicOnErr(pre, r) == ~r.ok => r.post = pre

(* C10: what an invocation can read is exactly the effective prefix *)
ReadsSeeEffective(pre, r) ==
    \A j \in 1..Len(r.log) : r.log[j].t = "inv" => r.log[j].reads = EffectiveState(pre, r.log, j)

(* C03: for every dispatched sub-message, reply is invoked exactly when it must, on the dispatcher,
   right after the sub-message's own log entry (i.e. after its whole subtree, before the next sibling) *)
Matches(ok, on) == (ok /\ on \in {"success", "always"}) \/ (~ok /\ on \in {"error", "always"})
ReplyDiscipline(r) ==
    \A j \in 1..Len(r.log) :
        r.log[j].t = "sub" =>
            LET isReplyNext == j < Len(r.log) /\ r.log[j+1].t = "inv" /\ r.log[j+1].entry = "reply"
                               /\ r.log[j+1].reply.is IN
            IF Matches(r.log[j].ok, r.log[j].on) /\ ~r.log[j].noreply    \* (a dispatcher without a reply entry point fails instead)
            THEN /\ isReplyNext
                 /\ r.log[j+1].c = r.log[j].owner
                 /\ r.log[j+1].reply.id = r.log[j].id
                 /\ r.log[j+1].reply.ok = r.log[j].ok
            ELSE ~isReplyNext
RepliesOnlyForSubs(r) ==
    \A j \in 1..Len(r.log) :
        (r.log[j].t = "inv" /\ r.log[j].entry = "reply") => (j > 1 /\ r.log[j-1].t = "sub")

(* C04 (events): the events of a successful call are, in execution order, the blocks of the
   invocations and bank transfers that were not rolled back *)
EntryEvent(e) ==
    CASE e.entry = "execute" -> Ev(<<"execute">>, << <<CA, e.c>> >>)
      [] e.entry = "sudo" -> Ev(<<"sudo">>, << <<CA, e.c>> >>)
      [] e.entry = "reply" -> Ev(<<"reply">>, << <<CA, e.c>>, <<<<"mode">>, IF e.reply.ok THEN "handle_success" ELSE "handle_failure">> >>)
      [] e.entry = "instantiate" -> Ev(<<"instantiate">>, << <<CA, e.c>>, <<<<"code_id">>, ToString(e.reads.reg[e.c].code)>> >>)
      [] e.entry = "migrate" -> Ev(<<"migrate">>, << <<CA, e.c>>, <<<<"code_id">>, ToString(e.reads.reg[e.c].code)>> >>)

RECURSIVE EventsOfLog(_, _, _)
EventsOfLog(log, sc, i) ==
    IF i > Len(log) THEN <<>>
    ELSE LET e == log[i]
             blk == IF e.dead THEN <<>>
                    ELSE IF e.t = "inv" THEN AppEvents(e.c, EntryEvent(e), sc[e.idx])
                    ELSE IF e.t = "sys" /\ e.eff[1].e = "move" /\ e.note = "msg"
                         THEN << Ev(<<"transfer">>, << <<<<"recipient">>, e.eff[1].to>>, <<<<"sender">>, e.eff[1].from>>,
                                                       <<<<"amount">>, CoinsStr(e.eff[1].coins)>> >>) >>
                    ELSE IF e.t = "sys" /\ e.note = "stakemsg" THEN e.ev
                    ELSE <<>>
         IN blk \o EventsOfLog(log, sc, i + 1)

RECURSIVE Flatten(_)
Flatten(resps) == IF resps = <<>> THEN <<>> ELSE Head(resps).ev \o Flatten(Tail(resps))
=============================================================================
