------------------------------ MODULE ChainGen ------------------------------
(***************************************************************************)
(* Generation mode for Chain: a state machine whose behaviours are the     *)
(* histories of top-level calls on an App.  The program of a transaction   *)
(* (its script: what each contract invocation does) is built LAZILY, in    *)
(* invocation order: `Extend` adds one behaviour exactly when the          *)
(* evaluator reports that the next invocation has no behaviour yet, so     *)
(* every bounded program is generated once and only the behaviours that    *)
(* are really consumed are enumerated.                                     *)
(*                                                                         *)
(*   Begin(call)   choose the next top-level call                          *)
(*   Extend(b)     give the next contract invocation its behaviour         *)
(*   Finish        the call is complete: commit or roll back, publish      *)
(*   Settle        back to a canonical state                               *)
(*   Admin(call)   calls outside transactions: store_code*, duplicate_code,*)
(*                 set_block / update_block                                *)
(* Menus (which calls, which behaviours) are supplied per property by the  *)
(* MC modules.                                                             *)
(***************************************************************************)
EXTENDS Chain

CONSTANTS MaxTx,            \* top-level calls per history (after the genesis)
          Fuel,             \* contract invocations per transaction
          Genesis,          \* sequence of [call, sc]: setup replayed before everything else
          CallMenu(_, _, _),   \* (root, codes, ntx) -> set of calls offered
          BehMenu(_, _, _),    \* (info, fuelLeft, cur) -> set of behaviours offered
          Stock                \* TRUE: the replay plugs the library's own AcceptingModule / FailingModule / StargateAccepting /
                               \* StargateFailing into the accepting and failing slots (behind the recording fronts)

VARIABLES root, codes, block, cur, last, hist, ntx

vars == <<root, codes, block, cur, last, hist, ntx>>

NoCur  == [on |-> FALSE]
NoLast == [on |-> FALSE]

(* the genesis, folded with the same evaluator *)
RECURSIVE FoldGenesis(_, _)
FoldGenesis(g, i) ==
    IF i > Len(Genesis) THEN g
    ELSE LET step == Genesis[i] IN
         IF IsAdmin(step.call)
         THEN LET a == AdminCall(g.codes, g.block, step.call) IN
              FoldGenesis([g EXCEPT !.codes = a.codes, !.block = a.block, !.root = AfterAdmin(@, step.call, a.block)], i + 1)
         ELSE LET r == RunTx(g.root, g.codes, g.block, step.call, step.sc) IN
              FoldGenesis([g EXCEPT !.root = r.post], i + 1)

(* names of the contracts whose instantiate entry point ran, in invocation order (the harness
   learns the address of a contract when its instantiate entry point is first invoked) *)
InstNames(log) ==
    LET ie == SelectSeq(log, LAMBDA e : e.t = "inv" /\ e.entry = "instantiate") IN
    [i \in 1..Len(ie) |-> ie[i].c]

RECURSIVE GenesisWithNames(_, _, _)
GenesisWithNames(g, i, acc) ==
    IF i > Len(Genesis) THEN acc
    ELSE LET step == Genesis[i] IN
         IF IsAdmin(step.call)
         THEN LET a == AdminCall(g.codes, g.block, step.call) IN
              GenesisWithNames([g EXCEPT !.codes = a.codes, !.block = a.block, !.root = AfterAdmin(@, step.call, a.block)], i + 1,
                               Append(acc, [call |-> step.call, sc |-> step.sc, inst |-> <<>>]))
         ELSE LET r == RunTx(g.root, g.codes, g.block, step.call, step.sc) IN
              GenesisWithNames([g EXCEPT !.root = r.post], i + 1,
                               Append(acc, [call |-> step.call, sc |-> step.sc, inst |-> InstNames(r.log)]))

GenesisNamed == GenesisWithNames([root |-> EmptyState, codes |-> [i \in {} |-> 0], block |-> Block0], 1, <<>>)

G0 == FoldGenesis([root |-> EmptyState, codes |-> [i \in {} |-> 0], block |-> Block0], 1)

Init == /\ root = G0.root
        /\ codes = G0.codes
        /\ block = G0.block
        /\ cur = NoCur
        /\ last = NoLast
        /\ hist = <<>>
        /\ ntx = 0

Idle == ~cur.on /\ ~last.on

Begin(call) ==
    /\ Idle /\ ntx < MaxTx /\ ~IsAdmin(call)
    /\ cur' = [on |-> TRUE, call |-> call, sc |-> <<>>]
    /\ UNCHANGED <<root, codes, block, last, hist, ntx>>

Run == RunTx(root, codes, block, cur.call, cur.sc)

Extend(b) ==
    /\ cur.on /\ Run.need /\ Len(cur.sc) < Fuel
    /\ cur' = [cur EXCEPT !.sc = Append(@, b)]
    /\ UNCHANGED <<root, codes, block, last, hist, ntx>>

Finish ==
    /\ cur.on
    /\ LET r == Run IN
       /\ ~r.need
       /\ root' = r.post
       /\ last' = [on |-> TRUE, tx |-> TRUE, pre |-> root, call |-> cur.call, sc |-> cur.sc, r |-> r,
                   codes |-> codes, block |-> block]
       /\ hist' = Append(hist, [call |-> cur.call, sc |-> cur.sc, inst |-> InstNames(r.log)])
    /\ cur' = NoCur
    /\ ntx' = ntx + 1
    /\ UNCHANGED <<codes, block>>

Admin(call) ==
    /\ Idle /\ ntx < MaxTx /\ IsAdmin(call)
    /\ LET a == AdminCall(codes, block, call) IN
       /\ codes' = a.codes
       /\ block' = a.block
       /\ root' = AfterAdmin(root, call, a.block)
       /\ last' = [on |-> TRUE, tx |-> FALSE, pre |-> root, call |-> call, sc |-> <<>>,
                   r |-> [ok |-> a.ok, val |-> a.val, rlog |-> AdminRlog(root, call, a.block)], codes |-> a.codes, block |-> a.block]
       /\ hist' = Append(hist, [call |-> call, sc |-> <<>>, inst |-> <<>>])
    /\ ntx' = ntx + 1
    /\ UNCHANGED cur

Settle == /\ last.on
          /\ last' = NoLast
          /\ UNCHANGED <<root, codes, block, cur, hist, ntx>>

Next == \/ \E call \in CallMenu(root, codes, ntx) : Begin(call) \/ Admin(call)
        \/ (cur.on /\ \E b \in BehMenu(Run.info, Fuel - Len(cur.sc), cur) : Extend(b))
        \/ Finish
        \/ Settle

Spec == Init /\ [][Next]_vars

view == <<root, codes, block, cur, ntx,
          IF last.on THEN [call |-> last.call, sc |-> last.sc, pre |-> last.pre] ELSE NoLast>>

(* ------------------------------------------------------------------------ *)
(* the declarative formulas of Chain, evaluated on every completed transaction *)
Tx == last.on /\ last.tx

InvAtomic        == Tx => AtomicOnErr(last.pre, last.r)                  \* C01
InvEffective     == Tx => PostIsEffective(last.pre, last.r)              \* C01, C02
InvReads         == Tx => ReadsSeeEffective(last.pre, last.r)            \* C10 (and C02: rolled-back state is invisible)
InvReply         == Tx => ReplyDiscipline(last.r) /\ RepliesOnlyForSubs(last.r)   \* C03
InvEvents        == (Tx /\ last.r.ok) => Flatten(last.r.resps) = EventsOfLog(last.r.log, last.sc, 1)   \* C04
InvScriptUsed    == Tx => last.r.used = Len(last.sc)                     \* lazily built: nothing unused
InvOneRespPerMsg == (Tx /\ last.r.ok /\ last.call.k = "execute") => Len(last.r.resps) = Len(last.call.msgs)  \* C01

DbgEffective == Tx => (PostIsEffective(last.pre, last.r)
                        \/ (PrintT(<<"BAD", last.call, last.sc, "post", last.r.post, "eff", EffectiveState(last.pre, last.r.log, Len(last.r.log) + 1)>>) /\ FALSE))

(* C09 in composition: over a completed transaction the supply of every denomination changes exactly by what the
   effective (not rolled back) mint and burn effects of its log say - transfers, attached funds, delegations,
   payouts never create or destroy coins *)
RECURSIVE SumBal(_, _, _)
SumBal(bank, accts, d) == IF accts = {} THEN 0
                          ELSE LET a == CHOOSE x \in accts : TRUE IN bank[a][d] + SumBal(bank, accts \ {a}, d)
SupplyIn(st, d) == SumBal(st.bank, DOMAIN st.bank, d)
RECURSIVE NetMint(_, _, _)
NetMint(log, i, d) ==
    IF i > Len(log) THEN 0
    ELSE LET e == log[i]
             RECURSIVE Effs(_)
             Effs(es) == IF es = <<>> THEN 0
                         ELSE (IF Head(es).e = "mint" THEN Tot(Head(es).coins, d)
                               ELSE IF Head(es).e = "burn" THEN 0 - Tot(Head(es).coins, d) ELSE 0) + Effs(Tail(es))
         IN (IF e.dead THEN 0 ELSE Effs(e.eff)) + NetMint(log, i + 1, d)
InvConserve == Tx => \A d \in Denoms : SupplyIn(last.r.post, d) = SupplyIn(last.pre, d) + NetMint(last.r.log, 1, d)

(* C08: an invocation changes only the invoked contract's own key space *)
InvPrivate ==
    Tx => \A j \in 1..Len(last.r.log) :
            LET e == last.r.log[j] IN
            e.t = "inv" => \A i \in 1..Len(e.eff) : e.eff[i].e = "cs" /\ e.eff[i].c = e.c

(* ------------------------------------------------------------------------ *)
(* emission: one line per completed call *)
InvEntries(log) == SelectSeq(log, LAMBDA e : e.t = "inv")

Script ==
    [ genesis |-> GenesisNamed,
      pre     |-> SubSeq(hist, 1, Len(hist) - 1),
      call    |-> last.call,
      sc      |-> last.sc,
      tx      |-> last.tx,
      expect  |-> IF last.tx THEN InvEntries(last.r.log) ELSE <<>>,
      ok      |-> last.r.ok,
      resps   |-> IF last.tx THEN last.r.resps ELSE <<>>,
      val     |-> IF last.tx THEN 0 ELSE last.r.val,
      rlog    |-> last.r.rlog,
      post    |-> root,
      postsk  |-> SkView(root, last.block.t),
      settled |-> Settled(root),
      codes   |-> last.codes,
      block   |-> last.block,
      mods    |-> Mods,
      stock   |-> Stock,
      addrmode |-> AddrMode ]

Emit == last.on => PrintT(ToJson(Script))
=============================================================================
