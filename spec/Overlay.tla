------------------------------ MODULE Overlay ------------------------------
(***************************************************************************)
(* The transactional KV overlay of cw-multi-test (src/transactions.rs):    *)
(* a stack of write-caches (StorageTransaction) over a base store.         *)
(*                                                                         *)
(* The module contains BOTH                                                *)
(*   - the implementation-shaped read algorithms (ImplGet, ImplRange):     *)
(*     local delta map + replay log per cache; range = MergeOverlay of the *)
(*     local range and the range of the level below (left wins ties,       *)
(*     deletes skipped, inverted bounds give an empty local range), and    *)
(*   - the reference ordered-map semantics (Flat + RefGet/RefRange of      *)
(*     module Bytes): apply the same sets and removes, in order, to a      *)
(*     plain map.                                                          *)
(* ReadsMatch states they agree at every level, for every key, bound pair  *)
(* and order, in every reachable state (property C06).                     *)
(*                                                                         *)
(* Actions (one per operation of the code):                                *)
(*   Write(op)   Storage::set / Storage::remove on the top cache           *)
(*               (or on the base store when no cache is open)              *)
(*   Push(via)   StorageTransaction::new (via = "raw") or entering the     *)
(*               closure of transactional() (via = "tx")                   *)
(*   Commit      RepLog::commit of the top cache into the level below      *)
(*               (closure returned Ok for via = "tx")                      *)
(*   Discard     dropping the top cache (closure returned Err)             *)
(***************************************************************************)
EXTENDS Bytes, TLC, Json

CONSTANTS Keys,      \* finite set of byte strings used as keys and as range bounds
          Vals,      \* finite set of non-empty values
          MaxDepth,  \* maximal number of stacked caches
          MaxOps     \* maximal number of operations in a behaviour

VARIABLES base,   \* the base store: a map
          stack,  \* sequence of caches, top is last
          nops,   \* number of operations so far
          hist,   \* the operations so far (hidden from the VIEW)
          lastlog \* the log replayed by the commit just taken (<<>> after any other step): part of the VIEW, so that
                  \* the state after a commit is visited - and replayed on the real code - once per committed LOG, not
                  \* once per resulting map (a commit that mishandles a particular log would otherwise hide behind a
                  \* shorter path to the same map)

vars == <<base, stack, nops, hist, lastlog>>
view == <<base, stack, nops, lastlog>>

SetOp(k, v) == [t |-> "set", k |-> k, v |-> v]
DelOp(k)    == [t |-> "del", k |-> k, v |-> None]
WriteOps    == {SetOp(k, v) : k \in Keys, v \in Vals} \cup {DelOp(k) : k \in Keys}

Delta(op) == IF op.t = "set" THEN [t |-> "set", v |-> op.v] ELSE [t |-> "del", v |-> None]

Depth == Len(stack)

-----------------------------------------------------------------------------
(* Reference semantics: a plain map after applying the operations in order *)

ApplyOp(m, op) == IF op.t = "set" THEN MapSet(m, op.k, op.v) ELSE MapDel(m, op.k)

RECURSIVE ApplyLog(_, _)
ApplyLog(m, log) == IF log = <<>> THEN m ELSE ApplyLog(ApplyOp(m, Head(log)), Tail(log))

RECURSIVE FlatOf(_, _, _)
FlatOf(b, st, lvl) == IF lvl = 0 THEN b ELSE ApplyLog(FlatOf(b, st, lvl - 1), st[lvl].log)

Flat(lvl) == FlatOf(base, stack, lvl)

-----------------------------------------------------------------------------
(* Implementation-shaped reads                                             *)

RECURSIVE ImplGet(_, _)
ImplGet(lvl, k) ==
    IF lvl = 0 THEN MapGet(base, k)
    ELSE LET loc == stack[lvl].local IN
         IF k \in DOMAIN loc
         THEN (IF loc[k].t = "set" THEN loc[k].v ELSE None)
         ELSE ImplGet(lvl - 1, k)

(* BTreeMap::range over the local deltas; `start > end` short-circuits to empty *)
LocalRange(loc, s, e, ord) ==
    IF s # None /\ e # None /\ LexLess(e, s) THEN <<>>
    ELSE LET ks  == SortedKeys({k \in DOMAIN loc : InBounds(k, s, e)})
             asc == [i \in 1..Len(ks) |-> <<ks[i], loc[ks[i]]>>]
         IN IF ord = "asc" THEN asc ELSE RevSeq(asc)

RECURSIVE Merge(_, _, _), TakeLeft(_, _, _)
(* MergeOverlay::next *)
Merge(L, R, ord) ==
    IF L = <<>> /\ R = <<>> THEN <<>>
    ELSE IF R = <<>> THEN TakeLeft(L, R, ord)
    ELSE IF L = <<>> THEN <<Head(R)>> \o Merge(L, Tail(R), ord)
    ELSE LET lk == Head(L)[1]
             rk == Head(R)[1]
             less == IF ord = "asc" THEN LexLess(lk, rk) ELSE LexLess(rk, lk)
         IN IF less THEN TakeLeft(L, R, ord)
            ELSE IF lk = rk THEN TakeLeft(L, Tail(R), ord)   \* equal: drop right, take left
            ELSE <<Head(R)>> \o Merge(L, Tail(R), ord)
(* MergeOverlay::take_left: deletes are skipped *)
TakeLeft(L, R, ord) ==
    IF Head(L)[2].t = "set"
    THEN << <<Head(L)[1], Head(L)[2].v>> >> \o Merge(Tail(L), R, ord)
    ELSE Merge(Tail(L), R, ord)

RECURSIVE ImplRange(_, _, _, _)
ImplRange(lvl, s, e, ord) ==
    IF lvl = 0 THEN RefRange(base, s, e, ord)
    ELSE Merge(LocalRange(stack[lvl].local, s, e, ord), ImplRange(lvl - 1, s, e, ord), ord)

-----------------------------------------------------------------------------
Bounds == Keys \cup {None}
Orders == {"asc", "desc"}

Init == /\ base = EmptyMap
        /\ stack = <<>>
        /\ nops = 0
        /\ hist = <<>>
        /\ lastlog = <<>>

Step(h) == /\ nops < MaxOps
           /\ nops' = nops + 1
           /\ hist' = Append(hist, h)
           /\ lastlog' = IF h.a = "commit" /\ Depth > 0 THEN stack[Depth].log ELSE <<>>

LevelWrite(lv, op) == [lv EXCEPT !.local = MapSet(lv.local, op.k, Delta(op)),
                                 !.log   = Append(lv.log, op)]

(* the state changes proper, shared with the trace specification *)
WriteCore(op) ==
    IF Depth = 0
    THEN /\ base' = ApplyOp(base, op)
         /\ UNCHANGED stack
    ELSE /\ stack' = [stack EXCEPT ![Depth] = LevelWrite(stack[Depth], op)]
         /\ UNCHANGED base

PushCore(via) ==
    /\ stack' = Append(stack, [local |-> EmptyMap, log |-> <<>>, via |-> via])
    /\ UNCHANGED base

Write(op) == Step([a |-> "write", op |-> op]) /\ WriteCore(op)

Push(via) == Depth < MaxDepth /\ Step([a |-> "push", via |-> via]) /\ PushCore(via)

RECURSIVE ReplayInto(_, _)
ReplayInto(lv, log) == IF log = <<>> THEN lv ELSE ReplayInto(LevelWrite(lv, Head(log)), Tail(log))

CommitCore ==
    /\ Depth > 0
    /\ LET log == stack[Depth].log IN
       IF Depth = 1
       THEN /\ base' = ApplyLog(base, log)
            /\ stack' = <<>>
       ELSE /\ stack' = [i \in 1..(Depth - 1) |->
                            IF i = Depth - 1 THEN ReplayInto(stack[i], log) ELSE stack[i]]
            /\ UNCHANGED base

DiscardCore ==
    /\ Depth > 0
    /\ stack' = SubSeq(stack, 1, Depth - 1)
    /\ UNCHANGED base

Commit == Step([a |-> "commit"]) /\ CommitCore

Discard == Step([a |-> "discard"]) /\ DiscardCore

Next == \/ \E op \in WriteOps : Write(op)
        \/ \E via \in {"raw", "tx"} : Push(via)
        \/ Commit
        \/ Discard

Spec == Init /\ [][Next]_vars

-----------------------------------------------------------------------------
(* C06, state part: implementation-shaped reads = reference reads          *)
ReadsMatch ==
    \A lvl \in 0..Depth :
        LET m == Flat(lvl) IN
        /\ \A k \in Keys : ImplGet(lvl, k) = RefGet(m, k)
        /\ \A s \in Bounds, e \in Bounds, ord \in Orders :
              LET r == ImplRange(lvl, s, e, ord) IN
              /\ r = RefRange(m, s, e, ord)
              /\ StrictlyOrdered(r, ord)

(* the local delta map of a cache is the last-write-wins summary of its log *)
RECURSIVE SummaryOf(_, _)
SummaryOf(m, log) == IF log = <<>> THEN m
                     ELSE SummaryOf(MapSet(m, Head(log).k, Delta(Head(log))), Tail(log))
LocalIsLogSummary == \A i \in 1..Depth : stack[i].local = SummaryOf(EmptyMap, stack[i].log)

TypeOK == /\ DOMAIN base \subseteq Keys
          /\ \A k \in DOMAIN base : base[k] \in Vals
          /\ Depth <= MaxDepth
          /\ nops <= MaxOps

(* C06, action part *)
IsWrite   == hist' # hist /\ hist'[Len(hist')].a = "write"
IsCommit  == hist' # hist /\ hist'[Len(hist')].a = "commit"
IsDiscard == hist' # hist /\ hist'[Len(hist')].a = "discard"
IsPush    == hist' # hist /\ hist'[Len(hist')].a = "push"

(* the base and all lower caches are never modified while a cache is alive *)
BaseFrozen ==
    [][(IsWrite /\ Depth > 0) =>
          /\ base' = base
          /\ \A i \in 1..(Depth - 1) : stack'[i] = stack[i]]_vars

(* committing makes the level below equal to the reference map of the committed level *)
CommitExact ==
    [][IsCommit => /\ FlatOf(base', stack', Depth - 1) = Flat(Depth)
                   /\ \A i \in 0..(Depth - 2) : FlatOf(base', stack', i) = Flat(i)]_vars

(* discarding (and pushing) leaves everything below untouched *)
DiscardNoop ==
    [][(IsDiscard \/ IsPush) =>
          \A i \in 0..(IF IsPush THEN Depth ELSE Depth - 1) : FlatOf(base', stack', i) = Flat(i)]_vars

-----------------------------------------------------------------------------
(* Emission of replay scripts: one line per distinct state, carrying the   *)
(* operations that lead to it and the reference answers of the whole read  *)
(* battery at every level.                                                 *)
BoundSeq == <<None>> \o SortedKeys(Keys)
KeySeq   == SortedKeys(Keys)

BatteryAt(lvl) ==
    LET m == Flat(lvl) IN
    [ flat   |-> MapAsPairs(m),
      gets   |-> [i \in 1..Len(KeySeq) |-> RefGet(m, KeySeq[i])],
      ranges |-> [i \in 1..Len(BoundSeq) |->
                    [j \in 1..Len(BoundSeq) |->
                        << RefRange(m, BoundSeq[i], BoundSeq[j], "asc"),
                           RefRange(m, BoundSeq[i], BoundSeq[j], "desc") >> ]] ]

Script == [ ops    |-> hist,
            keys   |-> KeySeq,
            bounds |-> BoundSeq,
            levels |-> [l \in 1..(Depth + 1) |-> BatteryAt(l - 1)] ]

Emit == PrintT(ToJson(Script))
=============================================================================
