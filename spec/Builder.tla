------------------------------ MODULE Builder ------------------------------
(***************************************************************************)
(* C20: AppBuilder and ContractWrapper as slot machines.  A builder holds  *)
(* one value per slot; a with_* step replaces exactly the value of its     *)
(* slot (the value supplied by the k-th step is tagged k) and keeps all    *)
(* others; build() hands over exactly the slot values and runs the         *)
(* initialisation function once against the supplied storage.  TLC         *)
(* enumerates every sequence of steps up to MaxSteps (every subset, every  *)
(* permutation, repeated steps); each is replayed on the real builders.    *)
(***************************************************************************)
EXTENDS Integers, Sequences, FiniteSets, TLC, Json

CONSTANTS MaxSteps, Kinds

AppSlots == {"api", "block", "storage", "bank", "wasm", "custom", "staking", "distribution", "ibc", "gov", "stargate"}
(* AppBuilder steps: one per slot, plus steps that supply a boundary VALUE for the slot (a block of height 0,
   of time 0, with an empty chain id; a storage that already holds data): "exactly what was supplied"
   does not depend on what the value looks like *)
AppSteps == AppSlots \cup {"block_h0", "block_t0", "block_c0", "storage_data"}
(* ContractWrapper steps and the slot each one fills *)
WrapSteps == {"sudo", "sudo_empty", "reply", "reply_empty", "migrate", "migrate_empty", "checksum"}
WrapSlots == {"sudo", "reply", "migrate", "checksum"}
SlotOf(step) == CASE step \in {"sudo", "sudo_empty"} -> "sudo"
                  [] step \in {"reply", "reply_empty"} -> "reply"
                  [] step \in {"migrate", "migrate_empty"} -> "migrate"
                  [] step \in {"block_h0", "block_t0", "block_c0"} -> "block"
                  [] step = "storage_data" -> "storage"
                  [] OTHER -> step

VARIABLES kind,     \* "app" | "wrapper"
          slots,    \* slot -> tag (0 = the default / not supplied)
          steps,    \* the steps so far
          built,    \* app only: build() has been called
          inits     \* number of times the initialisation function ran

vars == <<kind, slots, steps, built, inits>>

Init == /\ kind \in Kinds
        /\ slots = IF kind = "app" THEN [s \in AppSlots |-> 0] ELSE [s \in WrapSlots |-> 0]
        /\ steps = <<>> /\ built = FALSE /\ inits = 0

With(step) ==
    /\ ~built /\ Len(steps) < MaxSteps
    /\ slots' = [slots EXCEPT ![SlotOf(step)] = Len(steps) + 1]
    /\ steps' = Append(steps, step)
    /\ UNCHANGED <<kind, built, inits>>

Build == /\ kind = "app" /\ ~built
         /\ built' = TRUE /\ inits' = inits + 1
         /\ UNCHANGED <<kind, slots, steps>>

Next == \/ (kind = "app" /\ \E s \in AppSteps : With(s))
        \/ (kind = "wrapper" /\ \E s \in WrapSteps : With(s))
        \/ Build

Spec == Init /\ [][Next]_vars

(* a step changes its own slot only *)
Keeps == [][steps' # steps =>
              LET s == SlotOf(steps'[Len(steps')]) IN
              /\ slots'[s] = Len(steps')
              /\ \A o \in DOMAIN slots \ {s} : slots'[o] = slots[o]]_vars

(* the result does not depend on the order of steps on different slots: it is determined by
   the last step on each slot *)
LastOn(s) == LET idx == {i \in 1..Len(steps) : SlotOf(steps[i]) = s} IN
             IF idx = {} THEN 0 ELSE CHOOSE i \in idx : \A j \in idx : j <= i
OrderIndependent == \A s \in DOMAIN slots : slots[s] = LastOn(s)
InitOnce == inits = (IF built THEN 1 ELSE 0)

SlotSeq == IF kind = "app"
           THEN <<"api", "block", "storage", "bank", "wasm", "custom", "staking", "distribution", "ibc", "gov", "stargate">>
           ELSE <<"sudo", "reply", "migrate", "checksum">>
Script == [ kind |-> kind, steps |-> steps,
            slots |-> [i \in 1..Len(SlotSeq) |-> <<SlotSeq[i], slots[SlotSeq[i]]>>],
            inits |-> inits ]
Emit == (built \/ kind = "wrapper") => PrintT(ToJson(Script))
=============================================================================
