------------------------------ MODULE BankInd ------------------------------
(***************************************************************************)
(* C09, unbounded in the amounts: an inductive invariant for the bank      *)
(* ledger, discharged by Apalache (symbolic, SMT) instead of TLC.          *)
(*                                                                         *)
(* Bank.tla establishes with TLC (bounded by Cap) that every operation on  *)
(* a coin LIST moves exactly the per-denomination totals Tot(coins, d) of  *)
(* the list (MovesExactly / SupplyExactly / FailExactly).  Here an         *)
(* operation is abstracted to those totals, t \in [Denoms -> Nat], with    *)
(* NO bound on the amounts, and Apalache proves that                       *)
(*     IndInv == balances are natural numbers /\ for every denomination    *)
(*               the sum of all balances equals minted minus burned        *)
(* is inductive:  Init => IndInv   and   IndInv /\ Next => IndInv'.        *)
(* Accounts and denominations are fixed small sets (the sum over accounts  *)
(* is unfolded); the amounts are arbitrary integers >= 0.                  *)
(***************************************************************************)
EXTENDS Integers, Apalache

Accounts == {"a1", "a2", "a3", "a4"}
Denoms == {"d1", "d2"}

VARIABLES
    \* @type: Str -> (Str -> Int);
    bal,
    \* @type: Str -> Int;
    supply

\* @type: (Str -> Int, Str -> Int) => Bool;
Covers(row, t) == \A d \in Denoms : t[d] <= row[d]
\* @type: (Str -> Int) => Bool;
Positive(t) == \E d \in Denoms : t[d] > 0
\* @type: (Str -> Int) => Bool;
Amounts(t) == \A d \in Denoms : t[d] >= 0

Init == /\ bal = [a \in Accounts |-> [d \in Denoms |-> 0]]
        /\ supply = [d \in Denoms |-> 0]

\* @type: (Str, Str -> Int) => Bool;
Mint(to, t) ==
    /\ Positive(t)
    /\ bal' = [bal EXCEPT ![to] = [d \in Denoms |-> bal[to][d] + t[d]]]
    /\ supply' = [d \in Denoms |-> supply[d] + t[d]]

\* @type: (Str, Str -> Int) => Bool;
Burn(from, t) ==
    /\ Positive(t) /\ Covers(bal[from], t)
    /\ bal' = [bal EXCEPT ![from] = [d \in Denoms |-> bal[from][d] - t[d]]]
    /\ supply' = [d \in Denoms |-> supply[d] - t[d]]

(* burn-then-mint, as BankKeeper::send does: a transfer to oneself goes through the same two steps *)
\* @type: (Str, Str, Str -> Int) => Bool;
Send(from, to, t) ==
    /\ Positive(t) /\ Covers(bal[from], t)
    /\ LET mid == [bal EXCEPT ![from] = [d \in Denoms |-> bal[from][d] - t[d]]] IN
       bal' = [mid EXCEPT ![to] = [d \in Denoms |-> mid[to][d] + t[d]]]
    /\ UNCHANGED supply

(* a rejected operation (nothing positive, or overdrawn) changes nothing *)
Rejected == UNCHANGED <<bal, supply>>

Next ==
    \E t \in [Denoms -> Nat] :
        \/ \E to \in Accounts : Mint(to, t)
        \/ \E from \in Accounts : Burn(from, t)
        \/ \E from \in Accounts, to \in Accounts : Send(from, to, t)
        \/ Rejected

\* @type: (Str) => Int;
Total(d) == bal["a1"][d] + bal["a2"][d] + bal["a3"][d] + bal["a4"][d]

TypeOK == /\ DOMAIN bal = Accounts
          /\ \A a \in Accounts : DOMAIN bal[a] = Denoms
          /\ DOMAIN supply = Denoms

IndInv == /\ TypeOK
          /\ \A a \in Accounts, d \in Denoms : bal[a][d] >= 0
          /\ \A d \in Denoms : Total(d) = supply[d]

(* for the inductive step: ANY state satisfying the invariant (Gen: an arbitrary value of the variable's type) *)
IndInit == /\ bal = Gen(4)
           /\ supply = Gen(2)
           /\ IndInv
=============================================================================
