------------------------------ MODULE Staking ------------------------------
(***************************************************************************)
(* The staking and distribution keepers of cw-multi-test (src/staking.rs): *)
(* delegations as fixed-point shares, validator totals and staker sets,    *)
(* the FIFO unbonding queue paid out by block updates, lazily accrued      *)
(* rewards, withdraw addresses, slashing.                                  *)
(*                                                                         *)
(* Amounts are whole tokens; shares are integers at scale S (1 token = S), *)
(* rewards at scale S * 100.  Time advances in units of YEAR / 100 and the *)
(* annual rate is 1000 %, so one staked token earns 1/10 token per unit    *)
(* before commission (commissions 0 and 1/2): on this grid every           *)
(* intermediate value of the code's 18-digit decimal arithmetic is exact   *)
(* and the specification predicts every observable exactly.  A slash is    *)
(* only explored when the scaled shares stay exact at scale S.             *)
(*                                                                         *)
(* One action per operation of the code; each first brings the rewards of  *)
(* the validator(s) involved up to date (update_rewards).  The constants   *)
(* StakersFixed / TotalFixed = FALSE transcribe two behaviours of the code *)
(* before its repair (process_queue forgetting the staker set; slash       *)
(* flooring the validator total separately from the shares).               *)
(***************************************************************************)
EXTENDS Integers, Sequences, FiniteSets, SequencesExt, TLC, Json

CONSTANTS Dels,          \* delegators
          Vals,          \* validators
          Comm,          \* Vals -> commission in {0, 1} halves: 0 = 0 %, 1 = 50 %
          Amounts,       \* token amounts tried for delegate / undelegate / redelegate
          Fractions,     \* slash fractions <<num, den>>
          Steps,         \* time advances tried (in units)
          Unbond,        \* unbonding period in units
          InitBal,       \* initial balance of every delegator
          MaxOps,
          Rich,          \* 0: core operations; 1: + redelegation, withdraw-address changes; 2: + invalid requests
          StakersFixed, TotalFixed

S  == 10000
RS == S * 100

Pool == "pool"
Accts == Dels \cup {Pool}

VARIABLES bal,       \* [Accts -> Nat] bank balances in TOKEN
          other,     \* [Dels -> Nat]  balances in a foreign denomination (never change)
          shares,    \* [Dels \X Vals -> Nat]  scale S; 0 = no entry
          rew,       \* [Dels \X Vals -> Nat]  scale RS
          total,     \* [Vals -> Nat] the validator's recorded total in whole tokens
          stakers,   \* [Vals -> SUBSET Dels]
          queue,     \* sequence of [d, v, amt, at]
          waddr,     \* [Dels -> Accts] withdraw address
          now, lastcalc,
          acc, paid, \* history: ideal accrual (scale RS) and tokens paid out as rewards, per delegation
          nw,        \* history: number of successful withdrawals per delegation
          panicked,
          nops, last, hist

core == <<bal, other, shares, rew, total, stakers, queue, waddr, now, lastcalc, panicked>>
vars == <<core, acc, paid, nw, nops, last, hist>>
view == <<core, acc, paid, nw, nops, last>>

NoOp == [a |-> "none"]

Factor(v) == IF Comm[v] = 0 THEN 10 ELSE 5      \* reward per share unit per time unit, at scale RS/S = 100

Floor(x, scale) == x \div scale

(* ------------------------------------------------------------------------ *)
(* a state record is threaded through the operators below *)
St == [bal |-> bal, shares |-> shares, rew |-> rew, total |-> total, stakers |-> stakers,
       queue |-> queue, waddr |-> waddr, now |-> now, lastcalc |-> lastcalc, acc |-> acc,
       panicked |-> panicked]

(* update_rewards: lazily accrue the rewards of validator v up to `now`.
   Panics when a member of the staker set has no shares entry. *)
UpdateRewards(st, v) ==
    IF st.lastcalc[v] >= st.now THEN st
    ELSE LET dt == st.now - st.lastcalc[v]
             newrewards == st.total[v] * dt * Factor(v)        \* validator rewards (in tokens * 100 / 100)
         IN [st EXCEPT
               !.lastcalc[v] = st.now,
               !.rew = [p \in DOMAIN st.rew |->
                          IF p[2] = v /\ p[1] \in st.stakers[v] /\ newrewards # 0
                          THEN st.rew[p] + st.shares[p] * dt * Factor(v)
                          ELSE st.rew[p]],
               !.acc = [p \in DOMAIN st.acc |->
                          IF p[2] = v /\ st.shares[p] > 0 /\ st.total[v] # 0
                          THEN st.acc[p] + st.shares[p] * dt * Factor(v)
                          ELSE st.acc[p]],
               !.panicked = st.panicked \/ (newrewards # 0 /\ \E d \in st.stakers[v] : st.shares[<<d, v>>] = 0)]

(* pending reward as shown by a query (get_rewards_internal), scale RS *)
Pending(st, d, v) ==
    st.rew[<<d, v>>] +
    (IF st.total[v] = 0 \/ st.lastcalc[v] >= st.now THEN 0
     ELSE st.shares[<<d, v>>] * (st.now - st.lastcalc[v]) * Factor(v))

Fail(st) == [ok |-> FALSE, st |-> st]
Done(st) == [ok |-> TRUE, st |-> st]

(* update_stake *)
AddStake(st0, d, v, a) ==
    LET st == UpdateRewards(st0, v)
        p == <<d, v>>
        ns == st.shares[p] + a * S
    IN Done([st EXCEPT !.shares[p] = ns,
                       !.total[v] = @ + a,
                       !.stakers[v] = IF ns = 0 THEN @ \ {d} ELSE @ \cup {d}])

RemoveStake(st0, d, v, a) ==
    LET st == UpdateRewards(st0, v)
        p == <<d, v>>
    IN IF st.shares[p] = 0 THEN Fail(st0)                      \* no delegation
       ELSE IF a * S > st.shares[p] THEN Fail(st0)             \* invalid shares amount
       ELSE IF st.total[v] < a THEN Fail(st0)                  \* checked_sub on the recorded total
       ELSE LET ns == st.shares[p] - a * S IN
            Done([st EXCEPT !.shares[p] = ns,
                            !.rew[p] = IF ns = 0 THEN 0 ELSE @,   \* the entry (with its rewards) is removed
                            !.total[v] = @ - a,
                            !.stakers[v] = IF ns = 0 THEN @ \ {d} ELSE @ \cup {d}])

DoDelegate(st, d, v, a, foreign) ==
    IF a = 0 \/ foreign \/ v \notin Vals THEN Fail(st)
    ELSE LET r == AddStake(st, d, v, a) IN
         IF st.bal[d] < a THEN Fail(st)                          \* the bank transfer to the pool fails
         ELSE Done([r.st EXCEPT !.bal[d] = @ - a, !.bal[Pool] = @ + a])

DoUndelegate(st, d, v, a, foreign) ==
    IF foreign \/ a = 0 \/ v \notin Vals THEN Fail(st)
    ELSE LET r == RemoveStake(st, d, v, a) IN
         IF ~r.ok THEN Fail(st)
         ELSE Done([r.st EXCEPT !.queue = Append(@, [d |-> d, v |-> v, amt |-> a, at |-> st.now + Unbond])])

DoRedelegate(st, d, v1, v2, a, foreign) ==
    IF foreign \/ v1 \notin Vals \/ v2 \notin Vals THEN Fail(st)
    ELSE LET r1 == RemoveStake(st, d, v1, a) IN
         IF ~r1.ok THEN Fail(st)
         ELSE AddStake(r1.st, d, v2, a)

DoWithdraw(st0, d, v) ==
    IF v \notin Vals THEN Fail(st0)
    ELSE LET st == UpdateRewards(st0, v)
             p == <<d, v>> IN
         IF st.shares[p] = 0 THEN Fail(st0)
         ELSE LET r == Floor(st.rew[p], RS) IN
              IF r = 0 THEN Fail(st0)                             \* minting nothing is an error
              ELSE Done([st EXCEPT !.rew[p] = 0, !.bal[st.waddr[d]] = @ + r])

ScaleOK(x, f) == (x * (f[2] - f[1])) % f[2] = 0
Scaled(x, f) == (x * (f[2] - f[1])) \div f[2]

DoSlash(st0, v, f) ==
    IF f[1] > f[2] \/ v \notin Vals THEN Fail(st0)
    ELSE LET st == UpdateRewards(st0, v)
             nshares == [p \in DOMAIN st.shares |->
                            IF p[2] = v /\ p[1] \in st.stakers[v] THEN Scaled(st.shares[p], f) ELSE st.shares[p]]
             sum == LET RECURSIVE Sum(_)
                        Sum(X) == IF X = {} THEN 0 ELSE LET d == CHOOSE y \in X : TRUE IN nshares[<<d, v>>] + Sum(X \ {d})
                    IN Sum(st.stakers[v])
             ntotal == IF TotalFixed THEN Floor(sum, S) ELSE Scaled(st.total[v], f)
             nqueue == [i \in 1..Len(st.queue) |->
                           IF st.queue[i].v = v THEN [st.queue[i] EXCEPT !.amt = Scaled(@, f)] ELSE st.queue[i]]
         IN IF ntotal = 0
            THEN Done([st EXCEPT !.total[v] = 0,
                                 !.shares = [p \in DOMAIN st.shares |-> IF p[2] = v /\ p[1] \in st.stakers[v] THEN 0 ELSE st.shares[p]],
                                 !.rew = [p \in DOMAIN st.rew |-> IF p[2] = v /\ p[1] \in st.stakers[v] THEN 0 ELSE st.rew[p]],
                                 !.stakers[v] = {},
                                 !.queue = nqueue])
            ELSE Done([st EXCEPT !.total[v] = ntotal, !.shares = nshares, !.queue = nqueue,
                                 !.panicked = @ \/ \E d \in st.stakers[v] : st.shares[<<d, v>>] = 0])

(* process_queue, one matured entry at a time *)
RECURSIVE PayQueue(_)
PayQueue(st) ==
    IF st.queue = <<>> \/ Head(st.queue).at > st.now THEN st
    ELSE LET u == Head(st.queue)
             rest == Tail(st.queue)
             p == <<u.d, u.v>>
             pendingSame == LET RECURSIVE Sm(_)
                                Sm(q) == IF q = <<>> THEN 0
                                         ELSE (IF Head(q).d = u.d /\ Head(q).v = u.v THEN Head(q).amt ELSE 0) + Sm(Tail(q))
                            IN Sm(rest)
             dust == st.shares[p] > 0 /\ Floor(st.shares[p], S) + pendingSame = 0
             st1 == IF dust
                    THEN [st EXCEPT !.shares[p] = 0, !.rew[p] = 0,
                                    !.stakers[u.v] = IF StakersFixed THEN @ \ {u.d} ELSE @]
                    ELSE st
             st2 == IF u.amt = 0 THEN st1
                    ELSE IF st1.bal[Pool] < u.amt THEN [st1 EXCEPT !.panicked = TRUE]
                    ELSE [st1 EXCEPT !.bal[Pool] = @ - u.amt, !.bal[u.d] = @ + u.amt]
         IN PayQueue([st2 EXCEPT !.queue = rest])

(* ------------------------------------------------------------------------ *)
Init ==
    /\ bal = [a \in Accts |-> IF a = Pool THEN 0 ELSE InitBal]
    /\ other = [d \in Dels |-> 1]
    /\ shares = [p \in Dels \X Vals |-> 0]
    /\ rew = [p \in Dels \X Vals |-> 0]
    /\ total = [v \in Vals |-> 0]
    /\ stakers = [v \in Vals |-> {}]
    /\ queue = <<>>
    /\ waddr = [d \in Dels |-> d]
    /\ now = 0
    /\ lastcalc = [v \in Vals |-> 0]
    /\ acc = [p \in Dels \X Vals |-> 0]
    /\ paid = [p \in Dels \X Vals |-> 0]
    /\ nw = [p \in Dels \X Vals |-> 0]
    /\ panicked = FALSE
    /\ nops = 0 /\ last = NoOp /\ hist = <<>>

(* what the public API shows in state st (a record as built by St) *)
DelSeq == SetToSeq(Dels)
ValSeq == SetToSeq(Vals)
ObsOf(st) ==
    [ now |-> st.now,
      bal |-> [i \in 1..Len(DelSeq) |-> <<DelSeq[i], st.bal[DelSeq[i]]>>] \o << <<Pool, st.bal[Pool]>> >>,
      dels |-> [i \in 1..Len(DelSeq) |-> [j \in 1..Len(ValSeq) |->
                  [d |-> DelSeq[i], v |-> ValSeq[j],
                   stake |-> Floor(st.shares[<<DelSeq[i], ValSeq[j]>>], S),
                   exact |-> st.shares[<<DelSeq[i], ValSeq[j]>>],
                   reward |-> Floor(Pending(st, DelSeq[i], ValSeq[j]), RS)]]],
      queue |-> st.queue ]

Commit(op, r) ==
    LET st == IF r.ok THEN r.st ELSE St IN
    /\ bal' = st.bal /\ shares' = st.shares /\ rew' = st.rew /\ total' = st.total
    /\ stakers' = st.stakers /\ queue' = st.queue /\ waddr' = st.waddr /\ now' = st.now
    /\ lastcalc' = st.lastcalc /\ acc' = st.acc /\ panicked' = st.panicked
    /\ UNCHANGED other
    /\ nops' = nops + 1
    /\ last' = [op EXCEPT !.ok = r.ok]
    /\ hist' = Append(hist, [a |-> op.a, d |-> op.d, v |-> op.v, v2 |-> op.v2, amt |-> op.amt, f |-> op.f,
                              foreign |-> op.foreign, ok |-> r.ok, obs |-> ObsOf(st)])

Ready == last = NoOp /\ nops < MaxOps /\ ~panicked

Op(a, d, v, v2, amt, f, foreign) ==
    [a |-> a, d |-> d, v |-> v, v2 |-> v2, amt |-> amt, f |-> f, foreign |-> foreign, ok |-> TRUE]

AnyVals == Vals \cup {"vx"}      \* "vx" is not a validator

Delegate(d, v, a, fo) ==
    /\ Ready /\ Commit(Op("delegate", d, v, v, a, <<0, 1>>, fo), DoDelegate(St, d, v, a, fo))
    /\ UNCHANGED <<paid, nw>>
Undelegate(d, v, a, fo) ==
    /\ Ready /\ Commit(Op("undelegate", d, v, v, a, <<0, 1>>, fo), DoUndelegate(St, d, v, a, fo))
    /\ UNCHANGED <<paid, nw>>
Redelegate(d, v1, v2, a) ==
    /\ Ready /\ Commit(Op("redelegate", d, v1, v2, a, <<0, 1>>, FALSE), DoRedelegate(St, d, v1, v2, a, FALSE))
    /\ UNCHANGED <<paid, nw>>
Withdraw(d, v) ==
    /\ Ready
    /\ LET r == DoWithdraw(St, d, v) IN
       /\ Commit(Op("withdraw", d, v, v, 0, <<0, 1>>, FALSE), r)
       /\ paid' = IF r.ok THEN [paid EXCEPT ![<<d, v>>] = @ + Floor(UpdateRewards(St, v).rew[<<d, v>>], RS)] ELSE paid
       /\ nw' = IF r.ok THEN [nw EXCEPT ![<<d, v>>] = @ + 1] ELSE nw
SetWithdraw(d, a) ==
    /\ Ready /\ Commit(Op("set_withdraw", d, a, a, 0, <<0, 1>>, FALSE), Done([St EXCEPT !.waddr[d] = a]))
    /\ UNCHANGED <<paid, nw>>
Slash(v, f) ==
    /\ Ready
    /\ (v \in Vals /\ f[1] <= f[2]) =>
          LET st == UpdateRewards(St, v) IN
          \A d \in Dels : ScaleOK(st.shares[<<d, v>>], f)
    /\ Commit(Op("slash", "", v, v, 0, f, FALSE), DoSlash(St, v, f))
    /\ UNCHANGED <<paid, nw>>
Advance(k) ==
    /\ Ready
    /\ Commit(Op("advance", "", "", "", k, <<0, 1>>, FALSE), Done(PayQueue([St EXCEPT !.now = @ + k])))
    /\ UNCHANGED <<paid, nw>>

Settle == /\ last # NoOp /\ last' = NoOp
          /\ UNCHANGED <<core, acc, paid, nw, nops, hist>>

Next == \/ \E d \in Dels, v \in Vals, a \in Amounts : Delegate(d, v, a, FALSE)
        \/ \E d \in Dels, v \in Vals, a \in Amounts : Undelegate(d, v, a, FALSE)
        \/ \E d \in Dels, v \in Vals : Withdraw(d, v)
        \/ \E v \in Vals, f \in Fractions : Slash(v, f)
        \/ \E k \in Steps : Advance(k)
        \/ (Rich >= 1 /\ \/ \E d \in Dels, v1 \in Vals, v2 \in Vals, a \in Amounts : v1 # v2 /\ Redelegate(d, v1, v2, a)
                         \/ \E d \in Dels, a \in Dels : SetWithdraw(d, a))
        \/ (Rich >= 2 /\ \/ \E d \in Dels, v \in AnyVals, a \in Amounts \cup {0} :
                              (v \notin Vals \/ a = 0) /\ (Delegate(d, v, a, FALSE) \/ Undelegate(d, v, a, FALSE))
                         \/ \E d \in Dels, v \in Vals : Delegate(d, v, 1, TRUE) \/ Undelegate(d, v, 1, TRUE)
                         \/ \E d \in Dels, v1 \in Vals, a \in Amounts : Redelegate(d, v1, "vx", a)
                         \/ \E d \in Dels : Withdraw(d, "vx")
                         \/ \E f \in Fractions : Slash("vx", f))
        \/ Settle

Spec == Init /\ [][Next]_vars

(* ------------------------------------------------------------------------ *)
(* C14 *)
RECURSIVE QueueSum(_)
QueueSum(q) == IF q = <<>> THEN 0 ELSE Head(q).amt + QueueSum(Tail(q))

NoPanic == ~panicked
PoolSolvent == bal[Pool] >= QueueSum(queue)
StakersConsistent == \A v \in Vals : stakers[v] = {d \in Dels : shares[<<d, v>>] > 0}
QueueSorted == \A i \in 1..(Len(queue) - 1) : queue[i].at <= queue[i+1].at

IsOp == last = NoOp /\ last' # NoOp
ShownStake(sh, p) == Floor(sh[p], S)

(* delegating moves exactly the amount to the pool and raises the delegation by it; undelegating
   lowers it at once; failing operations change nothing *)
StakeMovesExactly ==
    [][IsOp =>
        LET op == last' IN
        /\ (op.a = "delegate" /\ op.ok) =>
              /\ bal'[op.d] = bal[op.d] - op.amt /\ bal'[Pool] = bal[Pool] + op.amt
              /\ shares'[<<op.d, op.v>>] = shares[<<op.d, op.v>>] + op.amt * S
        /\ (op.a = "undelegate" /\ op.ok) =>
              /\ shares'[<<op.d, op.v>>] = shares[<<op.d, op.v>>] - op.amt * S
              /\ bal' = bal
              /\ Len(queue') = Len(queue) + 1 /\ queue'[Len(queue')].amt = op.amt
              /\ queue'[Len(queue')].at = now + Unbond
        /\ ~op.ok => (bal' = bal /\ shares' = shares /\ queue' = queue /\ total' = total /\ rew' = rew)]_vars

InvalidFails ==
    [][IsOp =>
        LET op == last' IN
        /\ (op.a \in {"delegate", "undelegate"} /\ (op.amt = 0 \/ op.foreign \/ op.v \notin Vals)) => ~op.ok
        /\ (op.a \in {"undelegate", "redelegate"} /\ op.v \in Vals /\ op.amt * S > shares[<<op.d, op.v>>]) => ~op.ok
        /\ (op.a = "redelegate" /\ op.v2 \notin Vals) => ~op.ok
        /\ (op.a = "slash" /\ (op.f[1] > op.f[2] \/ op.v \notin Vals)) => ~op.ok]_vars

(* an unbonding is paid back by the first block update at or after its time, and not before *)
(* (with an unbonding period of 0 an entry is due at once and waits for the next block update) *)
QueueFuture == \A i \in 1..Len(queue) : queue[i].at > now \/ (Unbond = 0 /\ queue[i].at = now)
PayoutTiming ==
       [][(IsOp /\ last'.a = "advance") =>
            \A d \in Dels :
               bal'[d] = bal[d] + QueueSum(SelectSeq(queue, LAMBDA u : u.d = d /\ u.at <= now'))]_vars

(* C15 *)
NoOverPay == \A p \in Dels \X Vals : paid[p] * RS + rew[p] <= acc[p]
(* every withdrawal drops less than one token; removing a delegation entry drops its rewards *)
WithdrawExact ==
    [][(IsOp /\ last'.a = "withdraw" /\ last'.ok) =>
        LET op == last'
            shown == Floor(Pending(St, op.d, op.v), RS) IN
        /\ bal'[waddr[op.d]] = bal[waddr[op.d]] + shown
        /\ \A a \in Accts \ {waddr[op.d]} : bal'[a] = bal[a]
        /\ rew'[<<op.d, op.v>>] = 0
        /\ \A p \in (Dels \X Vals) \ {<<op.d, op.v>>} :
              Floor(Pending(St, p[1], p[2]), RS) = Floor(Pending([St EXCEPT !.rew = rew', !.lastcalc = lastcalc'], p[1], p[2]), RS)]_vars

(* C16 *)
SlashExact ==
    [][(IsOp /\ last'.a = "slash" /\ last'.ok) =>
        LET op == last' IN
        /\ \A d \in Dels :
              LET want == Scaled(shares[<<d, op.v>>], op.f) IN
              \/ shares'[<<d, op.v>>] = want
              \/ (shares'[<<d, op.v>>] = 0 /\ total'[op.v] = 0)          \* all stake of the validator wiped: less than a token left in total
        /\ \A i \in 1..Len(queue) :
              queue'[i].amt = IF queue[i].v = op.v THEN Scaled(queue[i].amt, op.f) ELSE queue[i].amt
        /\ \A p \in Dels \X Vals : p[2] # op.v => (shares'[p] = shares[p] /\ rew'[p] = rew[p])
        /\ bal' = bal
        /\ (op.f[1] = op.f[2]) => \A d \in Dels : shares'[<<d, op.v>>] = 0]_vars

(* a whole delegation survives a slash whenever its own scaled value is at least one token *)
SlashKeepsWhole ==
    [][(IsOp /\ last'.a = "slash" /\ last'.ok) =>
        \A d \in Dels : Scaled(shares[<<d, last'.v>>], last'.f) >= S => shares'[<<d, last'.v>>] = Scaled(shares[<<d, last'.v>>], last'.f)]_vars

TotalIsFloorOfShares ==
    \A v \in Vals :
       LET RECURSIVE Sum(_)
           Sum(X) == IF X = {} THEN 0 ELSE LET d == CHOOSE y \in X : TRUE IN shares[<<d, v>>] + Sum(X \ {d})
       IN total[v] >= Floor(Sum(Dels), S)

TypeOK == /\ \A a \in Accts : bal[a] >= 0
          /\ \A p \in Dels \X Vals : shares[p] >= 0 /\ rew[p] >= 0

(* ------------------------------------------------------------------------ *)
(* emission *)
(* history variables for C15: ideal accrual (scale RS), tokens paid as rewards, number of withdrawals *)
Ledger ==
    [i \in 1..Len(DelSeq) |-> [j \in 1..Len(ValSeq) |->
        [d |-> DelSeq[i], v |-> ValSeq[j],
         acc |-> acc[<<DelSeq[i], ValSeq[j]>>] + (IF total[ValSeq[j]] = 0 \/ lastcalc[ValSeq[j]] >= now THEN 0
                     ELSE shares[<<DelSeq[i], ValSeq[j]>>] * (now - lastcalc[ValSeq[j]]) * Factor(ValSeq[j])),
         paid |-> paid[<<DelSeq[i], ValSeq[j]>>],
         nw |-> nw[<<DelSeq[i], ValSeq[j]>>]]]]

Script == [ ops |-> hist, obs |-> ObsOf(St), ledger |-> Ledger, unbond |-> Unbond, initbal |-> InitBal,
            comm |-> [j \in 1..Len(ValSeq) |-> <<ValSeq[j], Comm[ValSeq[j]]>>] ]

Emit == last # NoOp => PrintT(ToJson(Script))
(* simulation mode: one script per behaviour, when it is complete *)
EmitFinal == (last # NoOp /\ (nops = MaxOps \/ panicked)) => PrintT(ToJson(Script))
=============================================================================
