------------------------------ MODULE Prefixed ------------------------------
(***************************************************************************)
(* Namespaced storage views (src/prefixed_storage): a view for a            *)
(* namespace path <<seg1, ..., segn>> exposes the base entries whose raw   *)
(* key starts with Enc(path) = LenEnc(|seg1|) \o seg1 \o ... with that     *)
(* prefix stripped.  Bytes are naturals below B (B = 256 for real bytes;   *)
(* B = 3 makes "all length bytes and all bytes maximal" reachable).        *)
(*                                                                         *)
(* Implementation-shaped: ImplViewRange (range_with_prefix: concatenate    *)
(* the prefix to start/end, upper bound of the prefix by increment-with-   *)
(* carry, range on the base, trim).  Reference: RefWindow (filter the raw  *)
(* keys by prefix, strip, order).  WindowExact says they agree (C07).      *)
(*                                                                         *)
(* WrapUpperBound = TRUE transcribes the upper bound as the code computed  *)
(* it before the repair (wraps to all-zero when no byte can be             *)
(* incremented); FALSE is the intended behaviour (no upper bound).         *)
(* FilterForeign = FALSE transcribes a second pre-repair behaviour: the    *)
(* same-length upper bound of a prefix ending in maximal bytes lies above  *)
(* shorter foreign keys, which were then read through the view.            *)
(***************************************************************************)
EXTENDS Bytes, TLC, Json

CONSTANTS B,          \* number of byte values
          Paths,      \* set of namespace paths (sequences of byte strings)
          ViewKeys,   \* keys used through views (and as range bounds)
          Vals,       \* non-empty values
          MaxOps,
          WrapUpperBound,
          FilterForeign   \* TRUE: keys of the base range that do not start with the prefix are skipped
                          \* (FALSE transcribes the code before its repair)

VARIABLES raw,    \* the base store: raw key -> value
          nops,
          last,   \* the last operation and its outcome ("ok" / "rejected")
          hist

vars == <<raw, nops, last, hist>>
view == <<raw, nops, last>>

MaxByte == B - 1

LenEnc(n) == << n \div B, n % B >>

RECURSIVE Enc(_)
Enc(path) == IF path = <<>> THEN <<>>
             ELSE LenEnc(Len(Head(path))) \o Head(path) \o Enc(Tail(path))

(* namespace_upper_bound: same length, last non-maximal byte incremented, trailing
   maximal bytes zeroed; result None = "no upper bound" *)
(* not recursive, so that a 65535-byte segment costs O(n) *)
Incr(p) ==
    LET nz == {j \in 1..Len(p) : p[j] # MaxByte} IN
    IF nz = {} THEN [j \in 1..Len(p) |-> 0]       \* nothing left to increment: wrapped
    ELSE LET i == CHOOSE x \in nz : \A y \in nz : y <= x IN
         [j \in 1..Len(p) |-> IF j < i THEN p[j] ELSE IF j = i THEN p[j] + 1 ELSE 0]

AllMax(p) == \A i \in 1..Len(p) : p[i] = MaxByte

UpperBound(p) == IF AllMax(p) THEN (IF WrapUpperBound THEN Incr(p) ELSE None)
                 ELSE Incr(p)

Strip(p, k) == SubSeq(k, Len(p) + 1, Len(k))

(* range_with_prefix *)
ImplViewRange(m, ns, s, e, ord) ==
    LET start == IF s = None THEN ns ELSE ns \o s
        end   == IF e = None THEN UpperBound(ns) ELSE ns \o e
        r0    == RefRange(m, start, end, ord)
        (* the upper bound keeps the length of the prefix, so shorter foreign keys can sort below it *)
        r     == IF FilterForeign THEN SelectSeq(r0, LAMBDA p : IsPrefixOf(ns, p[1])) ELSE r0
    IN [i \in 1..Len(r) |-> << Strip(ns, r[i][1]), r[i][2] >>]

(* reference: exactly the entries under the prefix, prefix stripped *)
WindowKeys(m, ns) == {k \in DOMAIN m : IsPrefixOf(ns, k)}
ViewMap(m, ns) == LET W == WindowKeys(m, ns)
                      S == {Strip(ns, k) : k \in W}
                  IN [k \in S |-> m[ns \o k]]
RefWindow(m, ns, s, e, ord) == RefRange(ViewMap(m, ns), s, e, ord)

ViewGet(m, ns, k) == MapGet(m, ns \o k)

-----------------------------------------------------------------------------
Bounds == ViewKeys \cup {None}
Orders == {"asc", "desc"}

NoOp == [a |-> "none", p |-> <<>>, k |-> <<>>, v |-> None, res |-> "ok"]

Init == raw = EmptyMap /\ nops = 0 /\ last = NoOp /\ hist = <<>>

Step(h) == nops < MaxOps /\ nops' = nops + 1 /\ hist' = Append(hist, h) /\ last' = h

ViewSet(p, k, v) ==
    /\ Step([a |-> "set", p |-> p, k |-> k, v |-> v, res |-> "ok"])
    /\ raw' = MapSet(raw, Enc(p) \o k, v)

ViewRemove(p, k) ==
    /\ Step([a |-> "remove", p |-> p, k |-> k, v |-> None, res |-> "ok"])
    /\ raw' = MapDel(raw, Enc(p) \o k)

(* a write through a read-only view is rejected and changes nothing *)
ReadonlyWrite(p, k, isSet) ==
    /\ Step([a |-> IF isSet THEN "ro_set" ELSE "ro_remove", p |-> p, k |-> k, v |-> None, res |-> "rejected"])
    /\ raw' = raw

Next == \/ \E p \in Paths, k \in ViewKeys, v \in Vals : ViewSet(p, k, v)
        \/ \E p \in Paths, k \in ViewKeys : ViewRemove(p, k)
        \/ \E p \in Paths, k \in ViewKeys, b \in BOOLEAN : ReadonlyWrite(p, k, b)

Spec == Init /\ [][Next]_vars

-----------------------------------------------------------------------------
(* C07: a view is exactly the window *)
WindowExact ==
    \A p \in Paths :
        LET ns == Enc(p) IN
        /\ \A k \in ViewKeys : ViewGet(raw, ns, k) = MapGet(ViewMap(raw, ns), k)
        /\ \A s \in Bounds, e \in Bounds, ord \in Orders :
              ImplViewRange(raw, ns, s, e, ord) = RefWindow(raw, ns, s, e, ord)

IsPathPrefix(p, q) == Len(p) <= Len(q) /\ SubSeq(q, 1, Len(p)) = p

(* the encoding is prefix-free on paths: windows nest exactly when paths do *)
Disjoint ==
    \A p \in Paths, q \in Paths :
        /\ (IsPrefixOf(Enc(p), Enc(q)) <=> IsPathPrefix(p, q))
        /\ (~IsPathPrefix(p, q) /\ ~IsPathPrefix(q, p))
              => WindowKeys(raw, Enc(p)) \cap WindowKeys(raw, Enc(q)) = {}
        /\ IsPathPrefix(p, q) =>
              LET rest == Enc(SubSeq(q, Len(p) + 1, Len(q))) IN
              /\ WindowKeys(raw, Enc(q)) \subseteq WindowKeys(raw, Enc(p))
              /\ ViewMap(raw, Enc(q)) = ViewMap(ViewMap(raw, Enc(p)), rest)

(* an operation through a view touches exactly one raw key, inside its window *)
Frame ==
    [][hist' # hist =>
            LET h  == hist'[Len(hist')]
                rk == Enc(h.p) \o h.k IN
            /\ \A x \in (DOMAIN raw \cup DOMAIN raw') \ {rk} : MapGet(raw', x) = MapGet(raw, x)
            /\ h.a \in {"ro_set", "ro_remove"} => raw' = raw
            /\ h.a = "set" => MapGet(raw', rk) = h.v
            /\ h.a = "remove" => MapGet(raw', rk) = None]_vars

TypeOK == nops <= MaxOps /\ last.res \in {"ok", "rejected"}

-----------------------------------------------------------------------------
(* replay scripts *)
PathSeq  == SetToSortSeq(Paths, LAMBDA p, q : LexLess(Enc(p), Enc(q)))
KeySeq   == SortedKeys(ViewKeys)
BoundSeq == <<None>> \o KeySeq

ViewBattery(p) ==
    LET vm == ViewMap(raw, Enc(p)) IN
    [ path   |-> p,
      gets   |-> [i \in 1..Len(KeySeq) |-> MapGet(vm, KeySeq[i])],
      ranges |-> [i \in 1..Len(BoundSeq) |->
                    [j \in 1..Len(BoundSeq) |->
                        << RefRange(vm, BoundSeq[i], BoundSeq[j], "asc"),
                           RefRange(vm, BoundSeq[i], BoundSeq[j], "desc") >> ]] ]

Script == [ ops    |-> hist,
            raw    |-> MapAsPairs(raw),
            keys   |-> KeySeq,
            bounds |-> BoundSeq,
            views  |-> [i \in 1..Len(PathSeq) |-> ViewBattery(PathSeq[i])] ]

Emit == PrintT(ToJson(Script))
=============================================================================
