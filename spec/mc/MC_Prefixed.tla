---------------------------- MODULE MC_Prefixed ----------------------------
EXTENDS Prefixed

(* B = 3: design level. Length 8 = <<2,2>> in base 3, so a segment of eight maximal bytes has an
   encoding consisting of maximal bytes only (the analogue of 65535 x 0xFF). *)
M8 == <<2, 2, 2, 2, 2, 2, 2, 2>>
Paths3 == { <<>>, << <<>> >>, << <<0>> >>, << <<2>> >>, << <<0>>, <<2>> >>, << <<0, 2>> >>,
            << M8 >>, << M8, <<2>> >>, << <<2, 2>> >> }
Keys3  == { <<>>, <<0>>, <<1>>, <<2>>, <<0, 1, 2>>, <<2, 2>> }     \* <<1>> lies in the gap below the upper bound of <<0,2,2,2>>

(* B = 256 with the bytes 0x00, 0x01, 0xFF: raw keys are real bytes *)
Paths256 == { <<>>, << <<>> >>, << <<0>> >>, << <<1>> >>, << <<255>> >>, << <<0>>, <<1>> >>,
              << <<0>>, <<255>> >>, << <<0, 1>> >>, << <<255, 255>> >>, << <<0>>, <<>> >> }
(* <<0,1,1>> spells LenEnc(1) \o <<1>>: a key of view <<0>> that looks like sub-namespace <<1>>;
   <<0,1,0>> spells the raw prefix of namespace <<0>> when used through the empty path *)
Keys256  == { <<>>, <<0>>, <<255>>, <<0, 1, 1>>, <<0, 1, 0>>, <<0, 1, 255>> }
PathsQ   == { <<>>, << <<>> >>, << <<0>> >>, << <<255>> >>, << <<0>>, <<1>> >>, << <<0>>, <<255>> >>, << <<255, 255>> >> }
KeysQ    == { <<>>, <<0>>, <<1>>, <<255>>, <<0, 1, 1>>, <<0, 1, 0>> }     \* <<1>>: below the upper bound <<0,2,0>> of <<0,1,255>>
V1 == { <<7>> }
V2 == { <<7>>, <<8>> }
=============================================================================
