SPECIFICATION Spec
CONSTANTS
  Denoms = {"eth"}
  Mods <- Mods0
  AddrMode = "casepair"
  Stock = FALSE
  MaxTx = 2
  Fuel = 3
  Level = 1
  Genesis <- Genesis0
  CallMenu <- PrivCalls
  BehMenu <- PrivMenu
VIEW view
INVARIANTS InvAtomic InvEffective InvReads InvReply InvEvents InvScriptUsed InvOneRespPerMsg InvPrivate InvConserve
CHECK_DEADLOCK FALSE
