SPECIFICATION Spec
CONSTANTS
  Dels <- D2
  Vals <- V1
  Comm <- Comm1
  Amounts = {20}
  Fractions <- FracNone
  Steps = {1}
  Unbond = 2
  InitBal = 30
  MaxOps = 6
  Rich = 1
  StakersFixed = TRUE
  TotalFixed = TRUE
VIEW view
INVARIANTS TypeOK NoPanic PoolSolvent StakersConsistent QueueSorted QueueFuture NoOverPay TotalIsFloorOfShares
PROPERTIES StakeMovesExactly InvalidFails PayoutTiming WithdrawExact SlashExact SlashKeepsWhole
CHECK_DEADLOCK FALSE
