SPECIFICATION Spec
CONSTANTS
  Keys <- KeysL
  Vals <- Vals2
  MaxDepth = 2
  MaxOps = 6
VIEW view
INVARIANTS TypeOK ReadsMatch LocalIsLogSummary
PROPERTIES BaseFrozen CommitExact DiscardNoop
CHECK_DEADLOCK FALSE
