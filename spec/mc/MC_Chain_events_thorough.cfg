SPECIFICATION Spec
CONSTANTS
  Denoms = {"eth"}
  Mods <- Mods0
  AddrMode = "simple"
  Stock = FALSE
  MaxTx = 1
  Fuel = 5
  Level = 2
  Genesis <- Genesis0
  CallMenu <- EventsCalls
  BehMenu <- EventsMenu
VIEW view
INVARIANTS InvAtomic InvEffective InvReads InvReply InvEvents InvScriptUsed InvOneRespPerMsg InvPrivate InvConserve
CHECK_DEADLOCK FALSE
