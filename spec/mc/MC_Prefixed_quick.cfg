SPECIFICATION Spec
CONSTANTS
  B = 256
  Paths <- PathsQ
  ViewKeys <- KeysQ
  Vals <- V1
  MaxOps = 2
  WrapUpperBound = FALSE
  FilterForeign = TRUE
VIEW view
INVARIANTS TypeOK WindowExact Disjoint
PROPERTIES Frame
CHECK_DEADLOCK FALSE
