SPECIFICATION Spec
CONSTANTS
  Denoms = {"eth"}
  Mods <- Mods0
  AddrMode = "simple"
  Stock = FALSE
  MaxTx = 1
  Fuel = 3
  Level = 2
  Genesis <- Genesis0
  CallMenu <- StrCalls
  BehMenu <- StrMenu
VIEW view
INVARIANTS InvAtomic InvEffective InvReads InvReply InvEvents InvScriptUsed InvOneRespPerMsg InvPrivate InvConserve
CHECK_DEADLOCK FALSE
