SPECIFICATION Spec
CONSTANTS
  Accounts <- Acc3
  Denoms <- Den2
  CoinLists <- ListsQ
  InitLists <- InitQ
  MetaDenoms = {"d1"}
  MetaVals = {"m1", "m2"}
  Cap = 2
VIEW view
INVARIANTS TypeOK Conservation
PROPERTIES FailExactly MovesExactly SupplyExactly MetaFrame InitExactly
CHECK_DEADLOCK FALSE
