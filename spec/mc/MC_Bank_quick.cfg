SPECIFICATION Spec
CONSTANTS
  Accounts <- Acc3
  Denoms <- Den2
  CoinLists <- ListsQ
  Cap = 2
VIEW view
INVARIANTS TypeOK Conservation
PROPERTIES FailExactly MovesExactly SupplyExactly
CHECK_DEADLOCK FALSE
