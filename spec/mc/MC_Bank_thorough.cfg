SPECIFICATION Spec
CONSTANTS
  Accounts <- Acc4
  Denoms <- Den2
  CoinLists <- ListsT
  InitLists <- InitQ
  MetaDenoms = {"d1"}
  MetaVals = {"m1", "m2"}
  Cap = 3
VIEW view
INVARIANTS TypeOK Conservation
PROPERTIES FailExactly MovesExactly SupplyExactly MetaFrame InitExactly
CHECK_DEADLOCK FALSE
