SPECIFICATION Spec
CONSTANTS
  Accounts <- Acc4
  Denoms <- Den2
  CoinLists <- ListsT
  MetaDenoms = {"d1"}
  MetaVals = {"m1", "m2"}
  Cap = 3
VIEW view
INVARIANTS TypeOK Conservation
PROPERTIES FailExactly MovesExactly SupplyExactly MetaFrame
CHECK_DEADLOCK FALSE
