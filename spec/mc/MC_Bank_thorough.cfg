SPECIFICATION Spec
CONSTANTS
  Accounts <- Acc4
  Denoms <- Den2
  CoinLists <- ListsT
  Cap = 3
VIEW view
INVARIANTS TypeOK Conservation
PROPERTIES FailExactly MovesExactly SupplyExactly
CHECK_DEADLOCK FALSE
