SPECIFICATION Spec
CONSTANTS
  Dels <- D2
  Vals <- V2
  Comm <- Comm2
  Amounts = {10, 20}
  Fractions <- FracHalf
  Steps = {1, 3}
  Unbond = 2
  InitBal = 30
  MaxOps = 4
  Rich = 1
  StakersFixed = TRUE
  TotalFixed = TRUE
VIEW view
INVARIANTS TypeOK NoPanic PoolSolvent StakersConsistent QueueSorted QueueFuture NoOverPay TotalIsFloorOfShares
PROPERTIES StakeMovesExactly InvalidFails PayoutTiming WithdrawExact SlashExact SlashKeepsWhole
CHECK_DEADLOCK FALSE
