SPECIFICATION Spec
CONSTANTS
  Denoms = {"eth"}
  Mods <- Mods0
  AddrMode = "simple"
  Stock = FALSE
  MaxTx = 2
  Fuel = 3
  Level = 1
  Genesis <- GenesisAdm
  CallMenu <- AdmCalls
  BehMenu <- AdmMenu
VIEW view
INVARIANTS InvAtomic InvEffective InvReads InvReply InvEvents InvScriptUsed InvOneRespPerMsg InvPrivate InvConserve
CHECK_DEADLOCK FALSE
