SPECIFICATION Spec
CONSTANTS
  Denoms = {"eth"}
  Mods <- Mods0
  AddrMode = "simple"
  Stock = FALSE
  MaxTx = 3
  Fuel = 2
  Level = 1
  Genesis <- Genesis0
  CallMenu <- RegCalls
  BehMenu <- RegMenu
VIEW view
INVARIANTS InvAtomic InvEffective InvReads InvReply InvEvents InvScriptUsed InvOneRespPerMsg InvPrivate InvConserve
CHECK_DEADLOCK FALSE
