SPECIFICATION Spec
CONSTANTS
  Denoms = {"eth"}
  Mods <- ModsStake
  AddrMode = "simple"
  Histories <- HistS
INVARIANTS Agree
CHECK_DEADLOCK FALSE
