----------------------------- MODULE MC_Bech32 -----------------------------
(***************************************************************************)
(* Algebraic properties of the transcription, evaluated by TLC for every   *)
(* input of an enumerated set (one initial state per input): round trip,   *)
(* validity under the own codec, rejection under the other variant /       *)
(* another prefix, rejection of EVERY single-character substitution and of *)
(* every single case flip.                                                 *)
(***************************************************************************)
EXTENDS Bech32

CONSTANT Deep

Variants == {"bech32", "bech32m"}
Other(v) == IF v = "bech32" THEN "bech32m" ELSE "bech32"

Hrps == { <<97>>, <<99, 49>>, <<106, 49, 110>>, <<99, 111, 115, 109, 119, 97, 115, 109>> }   \* a, c1, j1n, cosmwasm

Small == {0, 1, 255}
Bytes1 == {<<a>> : a \in Small}
Bytes2 == {<<a, b>> : a \in Small, b \in Small}
Bytes3 == {<<a, b, c>> : a \in Small, b \in {0, 255}, c \in {1, 255}}
Long == { [i \in 1..20 |-> (i * 37) % 256], [i \in 1..32 |-> (i * i + 11) % 256], [i \in 1..5 |-> 255] }
ByteSeqs == Bytes1 \cup Bytes2 \cup (IF Deep THEN Bytes3 \cup Long ELSE {[i \in 1..20 |-> (i * 37) % 256]})

(* substitutes: every charset character, plus characters outside it *)
Subst == {Charset[i] : i \in 1..32} \cup {98, 105, 111, 49, 45, 81}    \* b i o 1 - Q

VARIABLE inp
Start == <<"start", <<>>, <<>>>>
Init == inp = Start
Next == inp = Start /\ inp' \in Variants \X Hrps \X ByteSeqs
Spec == Init /\ [][Next]_inp

Flip(c) == IF IsLower(c) THEN c - 32 ELSE IF IsUpper(c) THEN c + 32 ELSE c

Props ==
    inp # Start =>
    LET v == inp[1]
        h == inp[2]
        b == inp[3]
        s == Encode(v, h, b)
        d == Decode(v, s)
    IN /\ d.ok /\ d.hrp = h /\ d.bytes = b
       /\ Valid(v, h, s)
       /\ ~Valid(Other(v), h, s)
       /\ \A h2 \in Hrps \ {h} : ~Valid(v, h2, s)
       /\ \A pos \in 1..Len(s), c \in Subst :
             c # s[pos] => ~Valid(v, h, [s EXCEPT ![pos] = c])
       /\ \A pos \in 1..Len(s) :
             Flip(s[pos]) # s[pos] => ~Valid(v, h, [s EXCEPT ![pos] = Flip(s[pos])])
       (* all upper case decodes to the same bytes (BIP-173) but is not what the encoder writes *)
       /\ LET u == [i \in 1..Len(s) |-> IF IsLower(s[i]) THEN s[i] - 32 ELSE s[i]]
              du == Decode(v, u)
          IN du.ok /\ du.bytes = b /\ ~Valid(v, h, u)
=============================================================================
