SPECIFICATION Spec
CONSTANTS
  Denoms = {"eth"}
  Mods <- Mods0
  AddrMode = "simple"
  Stock = FALSE
  MaxTx = 5
  Fuel = 3
  Level = 2
  Genesis <- GenesisAdm
  CallMenu <- AdmCalls
  BehMenu <- AdmMenu
VIEW view
INVARIANTS InvAtomic InvEffective InvReads InvReply InvEvents InvScriptUsed InvOneRespPerMsg InvPrivate InvConserve
CHECK_DEADLOCK FALSE
