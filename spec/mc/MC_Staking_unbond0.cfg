SPECIFICATION Spec
CONSTANTS
  Dels <- D1
  Vals <- V1
  Comm <- Comm1
  Amounts = {1, 2}
  Fractions <- FracHalf
  Steps = {0, 1}
  Unbond = 0
  InitBal = 4
  MaxOps = 5
  Rich = 0
  StakersFixed = TRUE
  TotalFixed = TRUE
VIEW view
INVARIANTS TypeOK NoPanic PoolSolvent StakersConsistent QueueSorted QueueFuture NoOverPay TotalIsFloorOfShares
PROPERTIES StakeMovesExactly InvalidFails PayoutTiming WithdrawExact SlashExact SlashKeepsWhole
CHECK_DEADLOCK FALSE
