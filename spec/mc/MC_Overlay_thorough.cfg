SPECIFICATION Spec
CONSTANTS
  Keys <- KeysQ
  Vals <- Vals2
  MaxDepth = 3
  MaxOps = 4
VIEW view
INVARIANTS TypeOK ReadsMatch LocalIsLogSummary
PROPERTIES BaseFrozen CommitExact DiscardNoop
CHECK_DEADLOCK FALSE
