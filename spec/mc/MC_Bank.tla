------------------------------ MODULE MC_Bank ------------------------------
EXTENDS Bank

Acc3 == {"a1", "a2", "a3"}
Acc4 == {"a1", "a2", "a3", "a4"}
Den2 == {"d1", "d2"}
Coin(A) == Den2 \X A
ListsUpTo2(A) == {<<>>} \cup {<<c>> : c \in Coin(A)} \cup {<<c1, c2>> : c1 \in Coin(A), c2 \in Coin(A)}
(* a few three-coin lists: repeated denomination, zero in the middle, zero only *)
Special3 == { << <<"d1", 1>>, <<"d1", 1>>, <<"d1", 1>> >>,
              << <<"d1", 1>>, <<"d2", 0>>, <<"d1", 1>> >>,
              << <<"d1", 0>>, <<"d2", 0>>, <<"d1", 0>> >>,
              << <<"d2", 2>>, <<"d1", 1>>, <<"d2", 1>> >> }
(* init_balance: sorted with a repeated denomination, unsorted, with a zero, empty *)
InitQ == { <<>>, << <<"d1", 1>> >>, << <<"d1", 1>>, <<"d1", 1>> >>, << <<"d1", 1>>, <<"d1", 1>>, <<"d2", 1>> >>,
           << <<"d2", 1>>, <<"d1", 1>>, <<"d2", 1>> >>, << <<"d1", 0>>, <<"d2", 2>> >> }
ListsQ == ListsUpTo2({0, 1, 2}) \cup Special3
ListsT == ListsUpTo2({0, 1, 2, 3}) \cup Special3
            \cup {<<c1, c2, c3>> : c1 \in Coin({0, 1}), c2 \in Coin({0, 1}), c3 \in Coin({0, 1})}
=============================================================================
