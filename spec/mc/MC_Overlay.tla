---------------------------- MODULE MC_Overlay ----------------------------
EXTENDS Overlay
(* quick: 5 keys with every order/prefix relation that matters to the merge *)
KeysQ == { <<>>, <<0>>, <<0, 0>>, <<0, 1>>, <<1>> }
KeysS == { <<>>, <<0>>, <<1>> }
(* long: two keys, six operations - a key committed to the base, then overwritten and removed in a cache, then committed *)
KeysL == { <<>>, <<0>> }
KeysT == { <<>>, <<0>>, <<0, 0>>, <<0, 2>>, <<1>>, <<2>>, <<2, 2>> }
Vals1 == { <<7>> }
Vals2 == { <<7>>, <<8>> }
=============================================================================
