SPECIFICATION Spec
CONSTANTS
  MaxSteps = 5
  Kinds = {"app", "wrapper"}
INVARIANTS OrderIndependent InitOnce
PROPERTIES Keeps
CHECK_DEADLOCK FALSE
