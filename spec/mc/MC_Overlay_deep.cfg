SPECIFICATION Spec
CONSTANTS
  Keys <- KeysS
  Vals <- Vals1
  MaxDepth = 4
  MaxOps = 6
VIEW view
INVARIANTS TypeOK ReadsMatch LocalIsLogSummary
PROPERTIES BaseFrozen CommitExact DiscardNoop
CHECK_DEADLOCK FALSE
