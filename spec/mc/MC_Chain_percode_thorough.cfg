SPECIFICATION Spec
CONSTANTS
  Denoms = {"eth"}
  Mods <- Mods0
  AddrMode = "percode"
  Stock = FALSE
  MaxTx = 5
  Fuel = 3
  Level = 2
  Genesis <- GenesisPC
  CallMenu <- PcCalls
  BehMenu <- PcMenu
VIEW view
INVARIANTS InvAtomic InvEffective InvReads InvReply InvEvents InvScriptUsed InvOneRespPerMsg InvPrivate InvConserve
CHECK_DEADLOCK FALSE
