SPECIFICATION Spec
CONSTANT Deep = TRUE
INVARIANT Props
CHECK_DEADLOCK FALSE
