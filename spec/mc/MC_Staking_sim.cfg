SPECIFICATION Spec
CONSTANTS
  Dels <- D2
  Vals <- V2
  Comm <- Comm2
  Amounts = {1, 2, 10}
  Fractions <- FracT
  Steps = {1, 2, 5}
  Unbond = 2
  InitBal = 30
  MaxOps = 20
  Rich = 1
  StakersFixed = TRUE
  TotalFixed = TRUE
INVARIANTS TypeOK NoPanic PoolSolvent StakersConsistent QueueSorted QueueFuture NoOverPay TotalIsFloorOfShares EmitFinal
PROPERTIES StakeMovesExactly InvalidFails PayoutTiming WithdrawExact SlashExact SlashKeepsWhole
CHECK_DEADLOCK FALSE
