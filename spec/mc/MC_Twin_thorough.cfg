SPECIFICATION Spec
CONSTANTS
  Denoms = {"eth"}
  Mods <- Mods0
  AddrMode = "simple"
  Histories <- HistT
INVARIANTS Agree
CHECK_DEADLOCK FALSE
