SPECIFICATION Spec
CONSTANTS
  Denoms = {"eth"}
  Mods <- Mods0
  Histories <- HistT
INVARIANTS Agree
CHECK_DEADLOCK FALSE
