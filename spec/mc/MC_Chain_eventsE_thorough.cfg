SPECIFICATION Spec
CONSTANTS
  Denoms = {"eth"}
  Mods <- Mods0
  AddrMode = "simple"
  Stock = FALSE
  MaxTx = 1
  Fuel = 4
  Level = 2
  Genesis <- GenesisRoute
  CallMenu <- EventsECalls
  BehMenu <- EventsMenu
VIEW view
INVARIANTS InvAtomic InvEffective InvReads InvReply InvEvents InvScriptUsed InvOneRespPerMsg InvPrivate InvConserve
CHECK_DEADLOCK FALSE
