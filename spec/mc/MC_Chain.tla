------------------------------ MODULE MC_Chain ------------------------------
(***************************************************************************)
(* Menus (which top-level calls, which contract behaviours) for the model- *)
(* checking configurations of ChainGen, one section per property.  Menus   *)
(* are factored per property: a configuration switches on only the         *)
(* dimensions its property talks about.                                    *)
(***************************************************************************)
EXTENDS ChainGen

CONSTANT Level     \* 1 = quick menus, 2 = thorough menus

Beh(fail, writes, attrs, events, data, subs) ==
    [fail |-> fail, writes |-> writes, attrs |-> attrs, events |-> events, data |-> data, subs |-> subs]
B0    == Beh(FALSE, <<>>, <<>>, <<>>, NoData, <<>>)
BFail == Beh(TRUE, <<>>, <<>>, <<>>, NoData, <<>>)
Sub(msg, id, payload, on) == [msg |-> msg, id |-> id, payload |-> payload, on |-> on]

Exec(to, funds) == [k |-> "exec", to |-> to, funds |-> funds]
Eth(n)          == << <<"eth", n>> >>
Send(to, n)     == [k |-> "bank_send", to |-> to, coins |-> Eth(n)]
Burn(n)         == [k |-> "bank_burn", coins |-> Eth(n)]
Inst(code, label, admin, funds, salt) ==
    [k |-> "inst", code |-> code, label |-> label, admin |-> admin, funds |-> funds, salt |-> salt]
Migrate(to, code)      == [k |-> "migrate", to |-> to, code |-> code]
UpdateAdmin(to, admin) == [k |-> "update_admin", to |-> to, admin |-> admin]
ClearAdmin(to)         == [k |-> "clear_admin", to |-> to]
Mod(slot, payload)     == [k |-> "mod", slot |-> slot, payload |-> payload]

ExecuteVia(sender, msgs, via) == [k |-> "execute", sender |-> sender, msgs |-> msgs, via |-> via]
ExecuteCall(sender, msgs) == ExecuteVia(sender, msgs, "multi")
SudoWasm(c, via) == [k |-> "sudo_wasm", c |-> c, via |-> via]
SudoMint(to, coins) == [k |-> "sudo_mint", to |-> to, coins |-> coins]

Ons == {"never", "success", "error", "always"}

A == "c1_0"
B == "c2_1"
C == "c1_2"
NextOf(c) == IF c = A THEN B ELSE IF c = B THEN C ELSE ""

Slots == {"custom", "staking", "distribution", "ibc", "gov", "stargate", "any"}
Mods0 == [s \in Slots |-> "fail"]

(* two codes, three contracts (A and C from the same code), a funded user, a funded contract *)
Genesis0 ==
    << [call |-> [k |-> "store_code", creator |-> "u1", flavour |-> 1], sc |-> <<>>],
       [call |-> [k |-> "store_code", creator |-> "u1", flavour |-> 2], sc |-> <<>>],
       [call |-> SudoMint("u1", Eth(3)), sc |-> <<>>],
       [call |-> ExecuteCall("u1", << Inst(1, "L1", "u1", <<>>, "") >>), sc |-> <<B0>>],
       [call |-> ExecuteCall("u1", << Inst(2, "L2", "", <<>>, "") >>), sc |-> <<B0>>],
       [call |-> ExecuteCall("u1", << Inst(1, "L3", "u2", <<>>, "") >>), sc |-> <<B0>>],
       [call |-> ExecuteCall("u1", << Send(A, 1) >>), sc |-> <<>>] >>

WriteTok(info) == << <<"k", "n" \o ToString(info.pos)>> >>
W(info) == Beh(FALSE, WriteTok(info), <<>>, <<>>, NoData, <<>>)
WSub(info, subs) == Beh(FALSE, WriteTok(info), <<>>, <<>>, NoData, subs)

(* ====================================================================== *)
(* tree: C02 / C03 / C10 - failure anywhere in a tree of sub-messages      *)
TreeMsgs(c) == (IF NextOf(c) # "" THEN {Exec(NextOf(c), <<>>)} ELSE {})
               \cup {Send("u2", 1), Send("u2", 9)}
               \cup (IF c = A THEN {Send(A, 9)} ELSE {})            \* a transfer to itself of more than it owns: fails like any overdraw
               (* a transfer of two coins of which the second cannot be covered: fails as a whole, the first coin does not move *)
               \cup (IF c = A THEN {[k |-> "bank_send", to |-> "u2", coins |-> << <<"eth", 1>>, <<"eth", 9>> >>]} ELSE {})
               \cup (IF Level > 1 /\ c = A THEN {Inst(1, "Lx", "", <<>>, ""), Inst(7, "Lx", "", <<>>, "")} ELSE {})
TreeSubs(c) == {Sub(m, 7, "p1", on) : m \in TreeMsgs(c), on \in Ons}
TreeSecond == {Sub(m, 8, "p2", on) : m \in {Send("u2", 1), Send("u2", 9)}, on \in Ons}

TreeMenu(info, fuel, cu) ==
    IF info.entry = "reply"
    THEN {W(info), BFail}
         \cup (IF Level > 1 THEN {WSub(info, <<Sub(Send("u2", 9), 5, "", on)>>) : on \in {"never", "error"}} ELSE {})
    ELSE {BFail, W(info)}
         \cup (IF fuel > 1
               THEN {WSub(info, <<s>>) : s \in TreeSubs(info.c)}
                    \cup (IF info.c = A THEN {WSub(info, <<s1, s2>>) : s1 \in TreeSubs(A), s2 \in TreeSecond} ELSE {})
               ELSE {})

TreeCalls(rt, cd, n) == { ExecuteCall("u1", << Exec(A, <<>>) >>) }

(* ====================================================================== *)
(* atomic: C01 - every entry point, failures never absorbed (reply_on in {never, success}) *)
AtomOns == {"never", "success"}
AtomMsgs(c) == (IF NextOf(c) # "" THEN {Exec(NextOf(c), <<>>)} ELSE {})
               \cup {Send("u2", 1), Send("u2", 9), Inst(1, "Lx", "", <<>>, ""), Inst(7, "Lx", "", <<>>, "")}
AtomSubs(c) == {Sub(m, 1, "", on) : m \in AtomMsgs(c), on \in AtomOns}
AtomMenu(info, fuel, cu) ==
    IF info.entry = "reply" THEN {W(info), BFail}
    ELSE {BFail, W(info)}
         \cup (IF fuel > 1 THEN {WSub(info, <<s>>) : s \in AtomSubs(info.c)} ELSE {})
         \cup (IF fuel > 1 /\ info.c = A /\ Level > 1
               THEN {WSub(info, <<s1, s2>>) : s1 \in AtomSubs(A), s2 \in {Sub(Send("u2", 9), 2, "", "never"), Sub(Send("u2", 1), 2, "", "success")}}
               ELSE {})
AtomCalls(rt, cd, n) ==
    { ExecuteVia("u1", << Exec(A, <<>>) >>, v) : v \in {"multi", "execute", "helper"} }
    \cup { ExecuteCall("u1", << Exec(A, <<>>), Send("u2", 1) >>),
           ExecuteCall("u1", << Send("u2", 1), Exec(A, <<>>) >>),
           ExecuteCall("u1", << Exec(B, <<>>), Send("u2", 9) >>),
           ExecuteCall("u1", << Send("u2", 2), Send("u2", 1), Send("u3", 1) >>),
           ExecuteVia("u1", << Send("u2", 1) >>, "helper"),
           ExecuteVia("u1", << Inst(2, "Ly", "u1", Eth(1), "") >>, "helper"),
           ExecuteVia("u1", << Inst(7, "Ly", "u1", <<>>, "") >>, "helper"),
           ExecuteVia("u1", << Inst(2, "Ly", "u1", Eth(1), "s1") >>, "helper"),      \* Executor::instantiate2_contract
           ExecuteVia("u1", << Inst(2, "Ly", "u1", <<>>, "EMPTY") >>, "helper"), ExecuteVia("u1", << Inst(2, "Ly", "u1", <<>>, "LONG") >>, "helper"),
           ExecuteVia("u1", << Migrate(A, 2) >>, "helper"), ExecuteVia("u2", << Migrate(A, 2) >>, "helper"),   \* Executor::migrate_contract
           SudoMint("u2", Eth(1)), SudoMint("u2", Eth(0)) }
    \cup { SudoWasm(A, v) : v \in {"sudo", "wasm_sudo"} }

(* ====================================================================== *)
(* reply: C03 - ids, payloads, what the reply carries *)
ReplyIds == IF Level > 1 THEN {0, 1, 9} ELSE {0, 9}
ReplyPayloads == IF Level > 1 THEN {"", "p1", "pz"} ELSE {"", "pz"}
ChildBehs(info) ==
    {BFail, W(info),
     Beh(FALSE, <<>>, << <<<<"ak">>, "av">> >>, << [ty |-> <<"ty">>, attrs |-> << <<<<"ek">>, "ev">> >>] >>, Raw("d1"), <<>>),
     Beh(FALSE, <<>>, <<>>, <<>>, Raw(""), <<>>)}
ReplyMenu(info, fuel, cu) ==
    IF info.entry = "reply" THEN {W(info), BFail, Beh(FALSE, <<>>, <<>>, <<>>, Raw("r1"), <<>>)}
    ELSE IF info.c = A
    THEN {WSub(info, <<Sub(m, id, p, on)>>) :
              m \in {Exec(B, <<>>), Send("u2", 1), Send("u2", 9), Inst(2, "Lr", "", <<>>, "")},
              id \in ReplyIds, p \in ReplyPayloads, on \in Ons}
         \cup {WSub(info, <<Sub(Exec(B, <<>>), 1, "p1", on1), Sub(Exec(C, <<>>), 2, "p2", on2)>>) : on1 \in Ons, on2 \in Ons}
    ELSE ChildBehs(info)
ReplyCalls(rt, cd, n) == { ExecuteCall("u1", << Exec(A, <<>>) >>) }

(* ====================================================================== *)
(* events: C04 - attributes, custom events, data at every node, every entry kind *)
Attr1 == << <<<<"ak">>, "av">> >>
Attr2 == << <<<<"ak">>, "av">>, <<<<"a2">>, "">> >>
Ev0 == [ty |-> <<"t0">>, attrs |-> <<>>]
Ev1 == [ty |-> <<"t1">>, attrs |-> << <<<<"ek">>, "ev">> >>]
(* the full product of attribute / event / data shapes is explored at the ROOT of a program (thorough: 3 x 4 x 3);
   the other nodes take the reduced product (2 x 2 x 3), and the nodes below a root with two sub-messages a fixed
   rich shape with and without data: the product over all nodes of a tree is far beyond any budget (measured:
   > 3 x 10^7 states with the full product everywhere) *)
RichAttrs(lv)  == IF lv > 1 THEN {<<>>, Attr1, Attr2} ELSE {<<>>, Attr2}
RichEvents(lv) == IF lv > 1 THEN {<<>>, <<Ev0>>, <<Ev1>>, <<Ev1, Ev0>>} ELSE {<<>>, <<Ev1, Ev0>>}
RichData(info) == {NoData, Raw(""), Raw("d" \o ToString(info.pos))}
RichL(lv, info, subs) == {Beh(FALSE, <<>>, a, e, d, subs) : a \in RichAttrs(lv), e \in RichEvents(lv), d \in RichData(info)}
Lite(info) == {Beh(FALSE, <<>>, Attr2, <<Ev1, Ev0>>, d, <<>>) : d \in {NoData, Raw("d" \o ToString(info.pos))}}
EvSubs == {Sub(m, 3, "", on) : m \in {Exec(B, <<>>), Send("u2", 1), Send("u2", 9), Inst(2, "Le", "", <<>>, "")}, on \in Ons}
EventsMenu(info, fuel, cu) ==
    LET isRoot == Len(cu.sc) = 0
        lv == IF isRoot THEN Level ELSE 1
        belowTwo == ~isRoot /\ Len(cu.sc[1].subs) = 2
    IN
    IF belowTwo THEN Lite(info) \cup {BFail}
    ELSE IF info.entry = "reply" THEN RichL(lv, info, <<>>) \cup {BFail}
    ELSE IF info.c = B \/ (info.entry = "instantiate" /\ Len(cu.sc) > 0) THEN RichL(lv, info, <<>>) \cup {BFail}
    ELSE UNION {RichL(lv, info, <<s>>) : s \in EvSubs} \cup RichL(lv, info, <<>>)
         \cup (IF Level > 1
               THEN UNION {RichL(1, info, <<Sub(Exec(B, <<>>), 1, "", on1), Sub(Exec(C, <<>>), 2, "", on2)>>) : on1 \in {"success", "never"}, on2 \in {"success", "error"}}
               ELSE {})
EventsCalls(rt, cd, n) ==
    { ExecuteCall("u1", << Exec(A, <<>>) >>),
      ExecuteCall("u1", << Inst(1, "Li", "u1", <<>>, "") >>),
      ExecuteCall("u1", << Migrate(A, 2) >>),
      SudoWasm(A, "sudo"),
      ExecuteCall("u1", << Send("u2", 1), Exec(A, <<>>) >>) }

(* the same menu with a contract written against the EMPTY message type at the root (code 3, lifted by
   ContractWrapper::new_with_empty / with_*_empty: its responses pass through customize_response) *)
EventsECalls(rt, cd, n) ==
    { ExecuteCall("u1", << Exec("c3_3", <<>>) >>),
      ExecuteCall("u1", << Inst(3, "Li", "u1", <<>>, "") >>),
      ExecuteCall("u1", << Migrate(A, 3) >>),
      SudoWasm("c3_3", "sudo") }

(* ====================================================================== *)
(* funds: C05 - caller, own address, block, attached funds *)
FundsSet == {<<>>, Eth(1), Eth(2), Eth(3), << <<"eth", 1>>, <<"btc", 1>> >>,
             (* zero coins and a repeated denomination: the bank moves the positive ones (summed), the contract is told the list as attached;
                overdrawn with a zero coin next to it; nothing positive at all (rejected by the bank) *)
             << <<"eth", 1>>, <<"btc", 0>> >>, << <<"btc", 0>>, <<"eth", 9>> >>, << <<"eth", 0>> >>, << <<"eth", 1>>, <<"eth", 1>> >>}
SubFunds == {<<>>, Eth(1), Eth(2)}
FundsMenu(info, fuel, cu) ==
    IF info.entry = "reply" THEN {W(info)}
    ELSE {W(info), BFail}
         \cup (IF fuel > 1
               THEN {WSub(info, <<Sub(m, 1, "", on)>>) :
                        m \in {Exec(NextOf(info.c), f) : f \in (IF NextOf(info.c) = "" THEN {} ELSE SubFunds)}
                              \cup {Exec(info.c, f) : f \in SubFunds \ {<<>>}}        \* a contract calling itself
                              \cup {Inst(2, "Lf", "", f, "") : f \in SubFunds}
                              \cup (IF info.c = B THEN {Exec(A, Eth(1))} ELSE {}),
                        on \in {"never", "error", "always"}}
               ELSE {})
FundsCalls(rt, cd, n) ==
    IF n = 0 /\ MaxTx > 1
    THEN {[k |-> "next_block"], [k |-> "set_block", h |-> 7, t |-> 100], SudoMint("u3", Eth(1))}
    ELSE { ExecuteCall(u, << Exec(A, f) >>) : u \in {"u1", "u2"}, f \in FundsSet }
         \cup { ExecuteCall("u1", << Inst(2, "Lf", "", f, "") >>) : f \in {Eth(1), Eth(3)} }
         \cup { SudoWasm(A, "sudo"), ExecuteCall("u1", << Migrate(A, 2) >>) }

GenesisFunds == Genesis0 \o << [call |-> SudoMint("u1", << <<"btc", 1>> >>), sc |-> <<>>] >>

(* ====================================================================== *)
(* private: C08 - who can touch which contract's storage *)
PrivKeys == {"k", "k1", "k2"}
PrivWrites(info) == {<<>>} \cup {<< <<key, "v" \o ToString(info.pos)>> >> : key \in PrivKeys} \cup {<< <<"k", "DEL">> >>}
                    \cup {<< <<"k1", "x">>, <<"k2", "y">> >>}
PrivLeafs(info) == {Beh(FALSE, ws, <<>>, <<>>, NoData, <<>>) : ws \in PrivWrites(info)}
PrivMenu(info, fuel, cu) ==
    IF Len(cu.call.msgs) > 1 THEN PrivLeafs(info)          \* three calls of the same contract in one transaction
    ELSE PrivLeafs(info)
         \cup (IF Len(cu.sc) = 0 /\ fuel > 1
               THEN {Beh(FALSE, ws, <<>>, <<>>, NoData, <<Sub(Exec(t, <<>>), 1, "", on)>>) :
                        ws \in {<<>>, << <<"k", "p" \o ToString(info.pos)>> >>},
                        t \in {A, B, C} \ {info.c}, on \in {"never", "error"}}
               ELSE {})
         \cup (IF info.entry # "reply" /\ Len(cu.sc) > 0 THEN {BFail} ELSE {})
PrivCalls(rt, cd, n) == { ExecuteCall("u1", << Exec(c, <<>>) >>) : c \in {A, B, C} }
                        \cup (IF n > 0 THEN { ExecuteCall("u1", << Exec(A, <<>>), Exec(A, <<>>), Exec(A, <<>>) >>) } ELSE {})

(* ====================================================================== *)
(* percode: C08 / C11 with a custom address generator that hands out ONE address per code id:
   a second instantiation of the same code must be rejected as a duplicate and change nothing *)
GenesisPC ==
    << [call |-> [k |-> "store_code", creator |-> "u1", flavour |-> 1], sc |-> <<>>],
       [call |-> [k |-> "store_code", creator |-> "u1", flavour |-> 2], sc |-> <<>>],
       [call |-> SudoMint("u1", Eth(3)), sc |-> <<>>],
       [call |-> ExecuteCall("u1", << Inst(1, "L1", "u1", <<>>, "") >>), sc |-> << Beh(FALSE, << <<"k", "secret">> >>, <<>>, <<>>, NoData, <<>>) >>] >>
PcMenu(info, fuel, cu) ==
    {Beh(FALSE, << <<"k", "w" \o ToString(info.pos)>> >>, <<>>, <<>>, NoData, <<>>), BFail}
    \cup (IF fuel > 1 /\ info.entry = "execute"
          THEN {Beh(FALSE, <<>>, <<>>, <<>>, NoData, <<Sub(Inst(c, "Lp", "", <<>>, ""), 1, "", on)>>) : c \in {1, 2}, on \in {"never", "error"}}
          ELSE {})
PcCalls(rt, cd, n) ==
    { ExecuteCall(u, << Inst(c, "Lp", adm, f, "") >>) : u \in {"u1", "u2"}, c \in {1, 2}, adm \in {"", "u2"}, f \in {<<>>, Eth(1)} }
    \cup { ExecuteCall("u1", << Inst(1, "Lp", "", <<>>, "s1") >>), ExecuteCall("u1", << Exec("p1", <<>>) >>),
           (* another code of the same creator: same checksum under the custom generator, so the same salted address *)
           ExecuteCall("u1", << Inst(2, "Lp", "", <<>>, "s1") >>), ExecuteCall("u2", << Inst(2, "Lp", "", <<>>, "s1") >>) }

(* ====================================================================== *)
(* registry: C11 - code ids and contract addresses *)
RegCodeIds == {0, 1, 3, 5}
RegMenu(info, fuel, cu) ==
    {B0, BFail} \cup (IF fuel > 1 /\ info.entry = "execute"
                      THEN {Beh(FALSE, <<>>, <<>>, <<>>, NoData, <<Sub(m, 1, "", on)>>) :
                               m \in {Inst(1, "Ls", "", <<>>, ""), Inst(1, "Ls", "", <<>>, "s1"), Inst(5, "Ls", "", <<>>, ""),
                                      Inst(1, "Ls", "", <<>>, "EMPTY")},
                               on \in {"never", "error"}}
                      ELSE {})
RegCalls(rt, cd, n) ==
    { [k |-> "store_code", creator |-> "u2", flavour |-> 2] }
    \cup { [k |-> "store_code_with_id", creator |-> u, id |-> i, flavour |-> 1] : u \in {"u2"}, i \in RegCodeIds }
    \cup { [k |-> "duplicate_code", id |-> i] : i \in {1, 4, 5} }
    \cup { ExecuteCall(u, << Inst(code, label, adm, <<>>, salt) >>) :
              u \in {"u1", "u2"}, code \in {1, 3, 5, 7}, label \in {"Lq", ""}, adm \in {"", "u2"}, salt \in {"", "s1"} }
    \cup { ExecuteCall("u1", << Inst(1, "Lq", "", <<>>, salt) >>) : salt \in {"EMPTY", "LONG", "MAX"} }   \* salts of 0, 65, 64 bytes
    \cup { ExecuteVia("u1", << Inst(1, "Lq", "", <<>>, salt) >>, "helper") : salt \in {"s1", "EMPTY", "LONG"} }   \* Executor::instantiate2_contract
    \cup { ExecuteCall("u1", << Exec(A, <<>>) >>) }
    \cup { ExecuteCall("u1", << Migrate(A, c) >>) : c \in {1, 2, 3, 4, 5, 6} }     \* A's admin migrates to every id

(* ====================================================================== *)
(* admin: C12 - migrate / update admin / clear admin *)
(* a fourth code without sudo / reply / migrate entry points (code 3, flavour 4) and one instance of it, D *)
D == "c3_3"
GenesisAdm == Genesis0 \o
    << [call |-> [k |-> "store_code", creator |-> "u1", flavour |-> 4], sc |-> <<>>],
       [call |-> ExecuteCall("u1", << Inst(3, "LD", "u1", <<>>, "") >>), sc |-> <<B0>>],
       (* code 4: a duplicate of code 1 (same wrapper, same checksum, another id) - migrating A to it changes A's code id *)
       [call |-> [k |-> "duplicate_code", id |-> 1], sc |-> <<>>] >>
AdmMenu(info, fuel, cu) ==
    IF info.c = D /\ info.entry = "execute" /\ fuel > 1
    THEN {W(info)} \cup {Beh(FALSE, WriteTok(info), <<>>, <<>>, NoData, <<Sub(Send("u2", n), 1, "", on)>>) : n \in {1, 9}, on \in Ons}
    ELSE IF info.entry = "execute" /\ fuel > 1
    THEN {Beh(FALSE, <<>>, <<>>, <<>>, NoData, <<Sub(m, 1, "", on)>>) :
             m \in {Migrate(A, 2), UpdateAdmin(A, B), Migrate(B, 1), UpdateAdmin(B, "u1"), ClearAdmin(A), Migrate(info.c, 2)},
             on \in {"never", "error"}} \cup {B0}
    ELSE IF info.entry = "migrate" /\ fuel > 1
    THEN (* the migrate entry point itself re-assigns the admin / migrates again *)
         {W(info), BFail}
         \cup {Beh(FALSE, WriteTok(info), <<>>, <<>>, NoData, <<Sub(m, 2, "", "never")>>) :
                  m \in {ClearAdmin(info.c), UpdateAdmin(info.c, "u2"), Migrate(info.c, 1)}}
    ELSE {W(info), BFail}
AdmCalls(rt, cd, n) ==
    { ExecuteCall(u, <<m>>) : u \in {"u1", "u2", "u3"},
          m \in {Migrate(A, 2), Migrate(A, 1), Migrate(A, 4), Migrate(A, 7), Migrate(B, 1), Migrate(C, 2),
                 UpdateAdmin(A, "u2"), UpdateAdmin(A, B), UpdateAdmin(A, A), UpdateAdmin(A, "u1"), UpdateAdmin(C, "u3"),
                 ClearAdmin(A), ClearAdmin(B), ClearAdmin(C)} }
    (* migrating to the code without a migrate entry point fails; so do its sudo and (below a sub-message) its reply *)
    \cup { ExecuteCall("u1", << Migrate(A, 3) >>), ExecuteCall("u1", << Migrate(D, 1) >>), SudoWasm(D, "sudo"), SudoWasm(D, "wasm_sudo"),
           ExecuteCall("u1", << Exec(D, <<>>) >>) }
    \cup { ExecuteCall("u1", << Exec(c, <<>>) >>) : c \in {A, B} }

(* ====================================================================== *)
(* strings: C13 - attribute keys and event types *)
Chars == {"SP", "USP", "US", "L1", "L2"} \cup (IF Level > 1 THEN {"TAB"} ELSE {})
StrUpTo(n) == UNION {[1..m -> Chars] : m \in 0..n}
StrLen == IF Level > 1 THEN 3 ELSE 2
Vals == {"", " ", "tx"}
StrBehs ==
    {Beh(FALSE, <<>>, << <<s, v>> >>, <<>>, NoData, <<>>) : s \in StrUpTo(StrLen), v \in {"", "tx"}}
    \cup {Beh(FALSE, <<>>, <<>>, << [ty |-> <<"ty">>, attrs |-> << <<s, " ">> >>] >>, NoData, <<>>) : s \in StrUpTo(StrLen)}
    \cup {Beh(FALSE, <<>>, <<>>, << [ty |-> s, attrs |-> <<>>] >>, NoData, <<>>) : s \in StrUpTo(StrLen)}
    \cup {Beh(FALSE, <<>>, << <<<<"ok">>, "v">>, <<s, "v">> >>, <<>>, NoData, <<>>) : s \in StrUpTo(1)}
StrMenu(info, fuel, cu) ==
    IF Len(cu.sc) = 0 /\ cu.call.k = "execute" /\ cu.call.msgs[1].k = "exec" /\ cu.call.msgs[1].to = A
    THEN {WSub(info, <<Sub(Exec(B, <<>>), 1, "", on)>>) : on \in {"never", "error", "always", "success"}}
    (* the reply handler takes every string when the child's response was fine; at Level 2 (strings of up to 3
       characters over 6 classes: 1043 behaviours) only below the plain child B0: one node varies at a time, the
       product child x reply is > 2 x 10^6 programs *)
    ELSE IF info.entry = "reply" /\ cu.sc[Len(cu.sc)].fail = FALSE /\ ~BadResponse(cu.sc[Len(cu.sc)]) /\ Len(cu.sc) > 1
            /\ (Level = 1 \/ cu.sc[Len(cu.sc)] = B0)
    THEN StrBehs
    ELSE IF info.entry = "reply" THEN {B0}
    ELSE StrBehs \cup {B0}
StrCalls(rt, cd, n) ==
    { ExecuteCall("u1", << Exec(B, <<>>) >>),
      ExecuteCall("u1", << Exec(A, <<>>) >>),
      ExecuteCall("u1", << Inst(2, "Lz", "", <<>>, "") >>),
      ExecuteCall("u1", << Migrate(A, 2) >>),
      SudoWasm(B, "sudo") }

(* ====================================================================== *)
(* routing: C17 - every message kind reaches its module *)
ModsFor(acc) == [s \in Slots |-> IF s \in acc THEN "accept" ELSE "fail"]
(* E is an instance of code 3: the scripted contract written against the EMPTY message type and
   lifted by ContractWrapper::new_with_empty (it cannot emit the chain's custom message) *)
E == "c3_3"
GenesisRoute == Genesis0 \o
    << [call |-> [k |-> "store_code", creator |-> "u1", flavour |-> 3], sc |-> <<>>],
       [call |-> ExecuteCall("u1", << Inst(3, "LE", "", <<>>, "") >>), sc |-> <<B0>>] >>
SlotsOf(c) == IF c = E THEN Slots \ {"custom"} ELSE Slots
EmptyTyped(cu) == cu.call.k = "execute" /\ cu.call.msgs[1].k \in {"migrate", "inst"} /\ cu.call.msgs[1].code = 3
(* a bank message whose coin list has a zero coin: the bank module is handed the list as written *)
SendZ == [k |-> "bank_send", to |-> "u2", coins |-> << <<"eth", 0>>, <<"eth", 1>> >>]
RouteMenu(info, fuel, cu) ==
    IF info.entry = "reply" \/ Len(cu.sc) > 0 THEN {B0}
    ELSE {Beh(FALSE, WriteTok(info), <<>>, <<>>, NoData, <<Sub(Mod(s, "m1"), 1, "", on)>>) :
                  s \in (IF EmptyTyped(cu) THEN Slots \ {"custom"} ELSE SlotsOf(info.c)), on \in Ons}
         \cup {Beh(FALSE, WriteTok(info), <<>>, <<>>, NoData, <<Sub(Send("u2", 1), 1, "", "never"), Sub(Mod(s, "m2"), 2, "", on)>>) :
                  s \in (IF EmptyTyped(cu) THEN Slots \ {"custom"} ELSE SlotsOf(info.c)), on \in {"never", "error"}}
         \cup {Beh(FALSE, WriteTok(info), <<>>, <<>>, NoData, <<Sub(m, 3, "", on)>>) :
                  m \in {Exec(B, <<>>), Exec(B, Eth(1)), Inst(2, "Lw", "", <<>>, ""), Send("u2", 1), Burn(1), SendZ}, on \in {"never", "success"}}
RouteCalls(rt, cd, n) ==
    { ExecuteCall("u1", << Mod(s, "m0") >>) : s \in Slots }
    \cup { ExecuteCall("u1", << SendZ >>) }
    (* long payloads of multi-byte characters (three alignments): handed over intact, the module's answer is the caller's *)
    \cup { ExecuteCall("u1", << Mod(s, p) >>) : s \in Slots, p \in {"UNI0", "UNI1", "UNI2"} }
    \cup { ExecuteCall("u1", << Send("u2", 1), Mod(s, "m3") >>) : s \in Slots }
    \cup { ExecuteCall("u1", << Exec(c, <<>>) >>) : c \in {A, B, E} }
    (* other origins: messages emitted by the migrate, sudo and instantiate entry points *)
    \cup { ExecuteCall("u1", << Migrate(A, 2) >>), ExecuteCall("u1", << Migrate(A, 3) >>), SudoWasm(A, "sudo"), SudoWasm(E, "wasm_sudo"),
           ExecuteCall("u1", << Inst(1, "Lr", "", <<>>, "") >>), ExecuteCall("u1", << Inst(3, "Lr", "", <<>>, "") >>),
           SudoMint("u2", Eth(1)) }                                    \* a privileged bank call (SudoMsg::Custom is not routed by the code: unimplemented!())
(* ====================================================================== *)
(* stake: staking and distribution messages with their real semantics, sent by users and by
   contracts (C02: rolled back with a failing sibling; C10: visible to queries; C14/C15 in
   composition with wasm and bank; C17: the nested bank transfer goes through the router) *)
Stake(op, v, n) == [k |-> "stake", op |-> op, v |-> v, v2 |-> "", coin |-> <<"eth", n>>]
StakeDen(op, v, den, n) == [k |-> "stake", op |-> op, v |-> v, v2 |-> "", coin |-> <<den, n>>]
Redel(v, v2, n) == [k |-> "stake", op |-> "redelegate", v |-> v, v2 |-> v2, coin |-> <<"eth", n>>]
Withdraw(v) == [k |-> "distr", op |-> "withdraw", v |-> v, to |-> ""]
SetW(to) == [k |-> "distr", op |-> "set_withdraw", v |-> "", to |-> to]
Advance(dt) == [k |-> "advance", dt |-> dt, via |-> "update"]
AdvanceSet(dt) == [k |-> "advance", dt |-> dt, via |-> "set"]
Slash(v, p) == [k |-> "sudo_slash", v |-> v, p |-> p]
ModsStake == [s \in Slots |-> IF s \in {"staking", "distribution"} THEN "real" ELSE "fail"]
GenesisStake ==
    << [call |-> [k |-> "store_code", creator |-> "u1", flavour |-> 1], sc |-> <<>>],
       [call |-> [k |-> "store_code", creator |-> "u1", flavour |-> 2], sc |-> <<>>],
       [call |-> SudoMint("u1", Eth(7)), sc |-> <<>>],
       [call |-> ExecuteCall("u1", << Inst(1, "L1", "u1", <<>>, "") >>), sc |-> <<B0>>],
       [call |-> ExecuteCall("u1", << Inst(2, "L2", "", <<>>, "") >>), sc |-> <<B0>>],
       [call |-> ExecuteCall("u1", << Send(A, 3) >>), sc |-> <<>>],
       [call |-> ExecuteCall("u1", << Stake("delegate", "v1", 2) >>), sc |-> <<>>] >>
StakeSubMsgs ==
    {Stake("delegate", "v1", 2), Stake("undelegate", "v1", 1), Withdraw("v1"), Stake("delegate", "v1", 9)}
    \cup (IF Level > 1 THEN {Stake("delegate", "v2", 1), Redel("v1", "v2", 1), SetW("u2"), Stake("delegate", "vx", 1)} ELSE {})
StakeMenu(info, fuel, cu) ==
    IF info.entry = "reply" THEN {W(info), BFail}
    ELSE {W(info)}
         \cup (IF fuel > 1 /\ info.c = A
               THEN {WSub(info, <<Sub(m, 1, "", on)>>) : m \in StakeSubMsgs, on \in Ons}
                    \cup {WSub(info, <<Sub(m, 1, "", "never"), Sub(Send("u2", 9), 2, "", on2)>>) :
                             m \in StakeSubMsgs, on2 \in {"never", "error"}}
               ELSE {})
StakeCalls(rt, cd, n) ==
    { ExecuteCall("u1", <<m>>) :
        m \in {Stake("delegate", "v1", 2), Stake("delegate", "v2", 1), Stake("delegate", "vx", 1), Stake("delegate", "v1", 0),
               StakeDen("delegate", "v1", "btc", 1), Stake("delegate", "v1", 9),
               Stake("undelegate", "v1", 1), Stake("undelegate", "v1", 2), Stake("undelegate", "v1", 5), StakeDen("undelegate", "v1", "btc", 1),
               Redel("v1", "v2", 1), Redel("v1", "vx", 1), Withdraw("v1"), Withdraw("vx"), SetW("u2"), SetW("bad")} }
    \cup (IF Level > 1 THEN { ExecuteCall("u1", <<m>>) : m \in {Redel("v2", "v1", 0), SetW("u1"), Withdraw("v2"), Stake("undelegate", "v2", 1)} } ELSE {})
    \cup { ExecuteCall("u1", << Exec(A, <<>>) >>), [k |-> "next_block"], Advance(10), AdvanceSet(10) }
    \cup UNION { { Slash(v, p) : p \in {q \in {"half", "all", "over"} : q \in {"all", "over"} \/ SlashExact(rt.sk, v, "half")} } :
                    v \in {"v1"} \cup (IF Level > 1 THEN {"v2", "vx"} ELSE {}) }
ModsAcceptAll == ModsFor(Slots)
ModsMixed == ModsFor({"custom", "ibc", "any"})
=============================================================================
