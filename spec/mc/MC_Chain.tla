------------------------------ MODULE MC_Chain ------------------------------
EXTENDS ChainGen

Beh(fail, writes, attrs, events, data, subs) ==
    [fail |-> fail, writes |-> writes, attrs |-> attrs, events |-> events, data |-> data, subs |-> subs]
B0    == Beh(FALSE, <<>>, <<>>, <<>>, NoData, <<>>)
BFail == Beh(TRUE, <<>>, <<>>, <<>>, NoData, <<>>)
Sub(msg, id, payload, on) == [msg |-> msg, id |-> id, payload |-> payload, on |-> on]

Exec(to, funds) == [k |-> "exec", to |-> to, funds |-> funds]
Send(to, n)     == [k |-> "bank_send", to |-> to, coins |-> << <<"eth", n>> >>]
Inst(code, label, admin, funds, salt) ==
    [k |-> "inst", code |-> code, label |-> label, admin |-> admin, funds |-> funds, salt |-> salt]
ExecuteCall(sender, msgs) == [k |-> "execute", sender |-> sender, msgs |-> msgs, via |-> "multi"]

Ons == {"never", "success", "error", "always"}

A == "c1_0"
B == "c2_1"
C == "c1_2"

Mods0 == [s \in {"custom", "staking", "distribution", "ibc", "gov", "stargate", "any"} |-> "fail"]

(* two codes, three contracts (two from the same code), one funded user *)
Genesis0 ==
    << [call |-> [k |-> "store_code", creator |-> "u1", flavour |-> 1], sc |-> <<>>],
       [call |-> [k |-> "store_code", creator |-> "u1", flavour |-> 2], sc |-> <<>>],
       [call |-> [k |-> "sudo_mint", to |-> "u1", coins |-> << <<"eth", 3>> >>], sc |-> <<>>],
       [call |-> ExecuteCall("u1", << Inst(1, "L1", "u1", <<>>, "") >>), sc |-> <<B0>>],
       [call |-> ExecuteCall("u1", << Inst(2, "L2", "", <<>>, "") >>), sc |-> <<B0>>],
       [call |-> ExecuteCall("u1", << Inst(1, "L3", "u2", <<>>, "") >>), sc |-> <<B0>>],
       [call |-> ExecuteCall("u1", << Send(A, 1) >>), sc |-> <<>>] >>

(* ---------------------------------------------------------------------- *)
(* C02 / C03 / C10: failure anywhere in a tree of sub-messages            *)
WriteTok(info) == << <<"k", "n" \o ToString(info.pos)>> >>

NextOf(c) == IF c = A THEN B ELSE IF c = B THEN C ELSE ""

SubMsgs(c) == (IF NextOf(c) # "" THEN {Exec(NextOf(c), <<>>)} ELSE {}) \cup {Send("u2", 1), Send("u2", 9)}
Subs1(c) == {Sub(m, 7, "p1", on) : m \in SubMsgs(c), on \in Ons}

TreeMenu(info, fuel, cu) ==
    IF info.entry = "reply"
    THEN {Beh(FALSE, WriteTok(info), <<>>, <<>>, NoData, <<>>), BFail}
    ELSE {BFail}
         \cup {Beh(FALSE, WriteTok(info), <<>>, <<>>, NoData, <<>>)}
         \cup (IF fuel > 1
               THEN {Beh(FALSE, WriteTok(info), <<>>, <<>>, NoData, <<s>>) : s \in Subs1(info.c)}
                    \cup (IF info.c = A
                          THEN {Beh(FALSE, WriteTok(info), <<>>, <<>>, NoData, <<s1, s2>>) :
                                    s1 \in Subs1(A), s2 \in {Sub(m, 8, "p2", on) : m \in {Send("u2", 1), Send("u2", 9)}, on \in Ons}}
                          ELSE {})
               ELSE {})

TreeCalls(rt, cd, n) == { ExecuteCall("u1", << Exec(A, <<>>) >>) }
=============================================================================
