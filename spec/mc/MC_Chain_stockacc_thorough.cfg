SPECIFICATION Spec
CONSTANTS
  Denoms = {"eth"}
  Mods <- ModsAcceptAll
  AddrMode = "simple"
  Stock = TRUE
  MaxTx = 1
  Fuel = 3
  Level = 2
  Genesis <- GenesisRoute
  CallMenu <- RouteCalls
  BehMenu <- RouteMenu
VIEW view
INVARIANTS InvAtomic InvEffective InvReads InvReply InvEvents InvScriptUsed InvOneRespPerMsg InvPrivate InvConserve
CHECK_DEADLOCK FALSE
