SPECIFICATION Spec
CONSTANTS
  B = 3
  Paths <- Paths3
  ViewKeys <- Keys3
  Vals <- V1
  MaxOps = 2
  WrapUpperBound = FALSE
  FilterForeign = TRUE
VIEW view
INVARIANTS TypeOK WindowExact Disjoint
PROPERTIES Frame
CHECK_DEADLOCK FALSE
