SPECIFICATION Spec
CONSTANTS
  Denoms = {"eth"}
  Mods <- Mods0
  Histories <- HistQ
INVARIANTS Agree
CHECK_DEADLOCK FALSE
