SPECIFICATION Spec
CONSTANTS
  Denoms = {"eth"}
  Mods <- Mods0
  AddrMode = "simple"
  Histories <- HistQ
INVARIANTS Agree
CHECK_DEADLOCK FALSE
