SPECIFICATION Spec
CONSTANTS
  MaxSteps = 3
  Kinds = {"app", "wrapper"}
INVARIANTS OrderIndependent InitOnce
PROPERTIES Keeps
CHECK_DEADLOCK FALSE
