SPECIFICATION Spec
CONSTANTS
  Denoms = {"eth"}
  Mods <- ModsStake
  AddrMode = "simple"
  Stock = FALSE
  MaxTx = 4
  Fuel = 3
  Level = 2
  Genesis <- GenesisStake
  CallMenu <- StakeCalls
  BehMenu <- StakeMenu
VIEW view
INVARIANTS InvAtomic InvEffective InvReads InvReply InvEvents InvScriptUsed InvOneRespPerMsg InvPrivate InvConserve
CHECK_DEADLOCK FALSE
