------------------------------ MODULE MC_Twin ------------------------------
EXTENDS Twin

Beh(fail, writes, attrs, events, data, subs) ==
    [fail |-> fail, writes |-> writes, attrs |-> attrs, events |-> events, data |-> data, subs |-> subs]
B0    == Beh(FALSE, <<>>, <<>>, <<>>, NoData, <<>>)
BFail == Beh(TRUE, <<>>, <<>>, <<>>, NoData, <<>>)
Sub(msg, id, payload, on) == [msg |-> msg, id |-> id, payload |-> payload, on |-> on]
Exec(to, funds) == [k |-> "exec", to |-> to, funds |-> funds]
Eth(n)          == << <<"eth", n>> >>
Send(to, n)     == [k |-> "bank_send", to |-> to, coins |-> Eth(n)]
Inst(code, label, admin, funds, salt) ==
    [k |-> "inst", code |-> code, label |-> label, admin |-> admin, funds |-> funds, salt |-> salt]
Call(sender, msgs) == [k |-> "execute", sender |-> sender, msgs |-> msgs, via |-> "multi"]
Step(call, sc) == [call |-> call, sc |-> sc]

Mods0 == [s \in {"custom", "staking", "distribution", "ibc", "gov", "stargate", "any"} |-> "fail"]

Store(fl)   == Step([k |-> "store_code", creator |-> "u1", flavour |-> fl], <<>>)
StoreId(i)  == Step([k |-> "store_code_with_id", creator |-> "u2", id |-> i, flavour |-> 2], <<>>)
Dup(i)      == Step([k |-> "duplicate_code", id |-> i], <<>>)
Mint(u, n)  == Step([k |-> "sudo_mint", to |-> u, coins |-> Eth(n)], <<>>)
W1 == Beh(FALSE, << <<"k", "v1">> >>, << <<<<"ak">>, "av">> >>, <<>>, Raw("d1"), <<>>)

(* store code, instantiate classic / salted, execute with a caught and an uncaught failure, bank *)
H1 == << Store(1), Mint("u1", 3),
         Step(Call("u1", <<Inst(1, "L1", "u1", Eth(1), "")>>), <<W1>>),
         Step(Call("u1", <<Exec("c1_0", <<>>)>>),
              << Beh(FALSE, << <<"k", "v2">> >>, <<>>, <<>>, NoData,
                     <<Sub(Send("u2", 9), 7, "p1", "error"), Sub(Inst(1, "L2", "", <<>>, "s1"), 8, "", "success")>>),
                 W1, W1, W1 >>) >>
H2 == << Store(1), StoreId(5), Dup(5), Mint("u2", 2),
         Step(Call("u2", <<Inst(5, "La", "", <<>>, "sA")>>), <<B0>>),
         Step(Call("u2", <<Inst(5, "La", "", <<>>, "sA")>>), <<B0>>),          \* duplicate address: fails
         Step(Call("u2", <<Inst(6, "Lb", "u2", Eth(1), "")>>), <<BFail>>) >>   \* failing instantiate: rolled back
H3 == << Store(2), Mint("u1", 2),
         Step(Call("u1", <<Inst(1, "L1", "", <<>>, "")>>), <<B0>>),
         Step(Call("u1", <<Send("u2", 1), Exec("c1_0", Eth(5))>>), <<>>),     \* overdraw: whole call fails
         Step([k |-> "next_block"], <<>>),
         Step([k |-> "sudo_wasm", c |-> "c1_0", via |-> "wasm_sudo"], <<W1>>) >>
(* staking in composition (configuration MC_Twin_stake: the real staking and distribution keepers): a user and a
   contract delegate, the contract undelegates, time passes by set_block, rewards are withdrawn, the validator is slashed *)
ModsStake == [s \in {"custom", "staking", "distribution", "ibc", "gov", "stargate", "any"} |->
                IF s \in {"staking", "distribution"} THEN "real" ELSE "fail"]
Stake(op, v, n) == [k |-> "stake", op |-> op, v |-> v, v2 |-> "", coin |-> <<"eth", n>>]
H4 == << Store(1), Mint("u1", 9),
         Step(Call("u1", <<Inst(1, "L1", "u1", Eth(4), "")>>), <<W1>>),
         Step(Call("u1", <<Stake("delegate", "v1", 2)>>), <<>>),
         Step(Call("u1", <<Exec("c1_0", <<>>)>>),
              << Beh(FALSE, << <<"k", "v2">> >>, <<>>, <<>>, NoData,
                     <<Sub(Stake("delegate", "v1", 2), 7, "p1", "success"), Sub(Stake("undelegate", "v1", 1), 8, "", "never"),
                       Sub(Stake("delegate", "v2", 9), 9, "", "error")>>),
                 W1, W1 >>),
         Step([k |-> "advance", dt |-> 10, via |-> "set"], <<>>),
         Step(Call("u1", <<[k |-> "distr", op |-> "withdraw", v |-> "v1", to |-> ""]>>), <<>>),
         Step([k |-> "sudo_slash", v |-> "v1", p |-> "all"], <<>>) >>
HistS == {H4}
HistQ == {H1, H3}
HistT == {H1, H2, H3}
=============================================================================
