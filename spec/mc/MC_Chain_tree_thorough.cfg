SPECIFICATION Spec
CONSTANTS
  Denoms = {"eth"}
  Mods <- Mods0
  AddrMode = "simple"
  Stock = FALSE
  MaxTx = 1
  Fuel = 7
  Level = 2
  Genesis <- Genesis0
  CallMenu <- TreeCalls
  BehMenu <- TreeMenu
VIEW view
INVARIANTS InvAtomic InvEffective InvReads InvReply InvEvents InvScriptUsed InvOneRespPerMsg InvPrivate InvConserve
CHECK_DEADLOCK FALSE
