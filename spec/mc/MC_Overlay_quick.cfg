SPECIFICATION Spec
CONSTANTS
  Keys <- KeysS
  Vals <- Vals2
  MaxDepth = 2
  MaxOps = 4
VIEW view
INVARIANTS TypeOK ReadsMatch LocalIsLogSummary
PROPERTIES BaseFrozen CommitExact DiscardNoop
CHECK_DEADLOCK FALSE
