SPECIFICATION Spec
CONSTANT Deep = FALSE
INVARIANT Props
CHECK_DEADLOCK FALSE
