SPECIFICATION Spec
CONSTANTS
  Denoms = {"eth"}
  Mods <- ModsStake
  AddrMode = "simple"
  Stock = FALSE
  MaxTx = 3
  Fuel = 3
  Level = 1
  Genesis <- GenesisStake
  CallMenu <- StakeCalls
  BehMenu <- StakeMenu
VIEW view
INVARIANTS InvAtomic InvEffective InvReads InvReply InvEvents InvScriptUsed InvOneRespPerMsg InvPrivate InvConserve
CHECK_DEADLOCK FALSE
