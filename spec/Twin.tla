-------------------------------- MODULE Twin --------------------------------
(***************************************************************************)
(* C19: two independent applications, A and B, are fed the same history of *)
(* calls under an arbitrary interleaving (Next == StepA \/ StepB).  Each   *)
(* step applies the next call of the history to one instance with the      *)
(* evaluator of Chain.  Agree: whatever has been observed at equal         *)
(* positions of the two runs is equal.  On the specification this holds    *)
(* because a step is a function of (state, call); TLC enumerates every     *)
(* interleaving, and each complete schedule is executed on two live Apps   *)
(* by `mtv twin`, where equal positions must give byte-identical results.  *)
(***************************************************************************)
EXTENDS Chain

CONSTANT Histories      \* set of histories: sequences of [call, sc]

VARIABLES hid,     \* the history chosen
          ia, ib,  \* the two instances: [root, codes, block, done, obs]
          sched    \* the interleaving so far: sequence of "A" / "B"

vars == <<hid, ia, ib, sched>>

Fresh == [root |-> EmptyState, codes |-> [i \in {} |-> 0], block |-> Block0, done |-> 0, obs |-> <<>>]

Init == hid \in Histories /\ ia = Fresh /\ ib = Fresh /\ sched = <<>>

(* one call on one instance; the observation is everything the caller gets back plus the state *)
StepOf(x, h) ==
    LET step == h[x.done + 1] IN
    IF IsAdmin(step.call)
    THEN LET r == AdminCall(x.codes, x.block, step.call)
             nr == AfterAdmin(x.root, step.call, r.block) IN
         [x EXCEPT !.codes = r.codes, !.block = r.block, !.done = @ + 1, !.root = nr,
                   !.obs = Append(@, [ok |-> r.ok, val |-> r.val, resps |-> <<>>, root |-> nr, codes |-> r.codes])]
    ELSE LET r == RunTx(x.root, x.codes, x.block, step.call, step.sc) IN
         [x EXCEPT !.root = r.post, !.done = @ + 1,
                   !.obs = Append(@, [ok |-> r.ok, val |-> 0, resps |-> r.resps, root |-> r.post, codes |-> x.codes])]

StepA == ia.done < Len(hid) /\ ia' = StepOf(ia, hid) /\ sched' = Append(sched, "A") /\ UNCHANGED <<hid, ib>>
StepB == ib.done < Len(hid) /\ ib' = StepOf(ib, hid) /\ sched' = Append(sched, "B") /\ UNCHANGED <<hid, ia>>

Next == StepA \/ StepB
Spec == Init /\ [][Next]_vars

MinOf(x, y) == IF x < y THEN x ELSE y
Agree == \A k \in 1..MinOf(ia.done, ib.done) : ia.obs[k] = ib.obs[k]

Complete == ia.done = Len(hid) /\ ib.done = Len(hid)

InstNames(log) ==
    LET ie == SelectSeq(log, LAMBDA e : e.t = "inv" /\ e.entry = "instantiate") IN
    [i \in 1..Len(ie) |-> ie[i].c]

(* the history annotated with the names of the contracts whose instantiate entry point runs in
   each step (the harness learns addresses there) and with the expected outcome *)
RECURSIVE Named(_, _, _)
Named(x, h, acc) ==
    IF x.done = Len(h) THEN acc
    ELSE LET step == h[x.done + 1]
             nx == StepOf(x, h)
             names == IF IsAdmin(step.call) THEN <<>>
                      ELSE InstNames(RunTx(x.root, x.codes, x.block, step.call, step.sc).log)
         IN Named(nx, h, Append(acc, [call |-> step.call, sc |-> step.sc, inst |-> names, ok |-> nx.obs[nx.done].ok]))

Script == [ history |-> Named(Fresh, hid, <<>>), schedule |-> sched, mods |-> Mods ]
Emit == Complete => PrintT(ToJson(Script))
=============================================================================
