-------------------------------- MODULE Bank --------------------------------
(***************************************************************************)
(* The bank ledger of cw-multi-test (src/bank.rs): balances per account    *)
(* and denomination; Mint (BankSudo::Mint), Send (BankMsg::Send), Burn     *)
(* (BankMsg::Burn) over coin LISTS (zero amounts and repeated              *)
(* denominations allowed).                                                 *)
(*                                                                         *)
(* The actions are implementation-shaped: zero coins are filtered out, an  *)
(* empty remainder is an error, debits are applied coin by coin and fail   *)
(* as soon as a running balance would go negative, credits are applied     *)
(* coin by coin (burn-then-mint for a transfer).  The properties below are *)
(* declarative (per-denomination totals) and are checked by TLC on every   *)
(* transition (C09).                                                       *)
(* Beyond C09: denomination metadata (set_denom_metadata, the              *)
(* DenomMetadata / AllDenomMetadata queries) is a separate map that the    *)
(* ledger operations never touch and that never touches the ledger.        *)
(***************************************************************************)
EXTENDS BankOps, FiniteSets, SequencesExt, TLC, Json

CONSTANTS Accounts,
          CoinLists,   \* the set of coin lists tried: sequences of <<denom, amount>>
          Cap,         \* state constraint: no supply above Cap (mints beyond it are not tried)
          InitLists,   \* coin lists tried for init_balance
          MetaDenoms,  \* denominations that may get metadata
          MetaVals     \* metadata values tried (tokens)

VARIABLES bal,      \* [Accounts -> [Denoms -> Nat]]
          supply,   \* [Denoms -> Nat]: minted minus burned so far
          meta,     \* [Denoms -> token]: "" = no metadata stored
          last,     \* the operation just performed and its outcome, or NoOp
          hist

vars == <<bal, supply, meta, last, hist>>
view == <<bal, supply, meta, last>>

NoOp == [a |-> "none"]

-----------------------------------------------------------------------------
Init == /\ bal = [a \in Accounts |-> [d \in Denoms |-> 0]]
        /\ supply = [d \in Denoms |-> 0]
        /\ meta = [d \in Denoms |-> ""]
        /\ last = NoOp
        /\ hist = <<>>

Do(op, r, sup) ==
    /\ bal' = r.bal
    /\ supply' = sup
    /\ last' = [op EXCEPT !.ok = r.ok]
    /\ hist' = Append(hist, [op EXCEPT !.ok = r.ok])
    /\ UNCHANGED meta

Mint(to, coins) ==
    /\ last = NoOp
    /\ \A d \in Denoms : supply[d] + Tot(coins, d) <= Cap
    /\ LET r == MintTo(bal, to, coins) IN
       Do([a |-> "mint", from |-> to, to |-> to, coins |-> coins, ok |-> TRUE], r,
          IF r.ok THEN [d \in Denoms |-> supply[d] + Tot(coins, d)] ELSE supply)

Send(from, to, coins) ==
    /\ last = NoOp
    /\ LET r == SendFromTo(bal, from, to, coins) IN
       Do([a |-> "send", from |-> from, to |-> to, coins |-> coins, ok |-> TRUE], r, supply)

Burn(from, coins) ==
    /\ last = NoOp
    /\ LET r == BurnFrom(bal, from, coins) IN
       Do([a |-> "burn", from |-> from, to |-> from, coins |-> coins, ok |-> TRUE], r,
          IF r.ok THEN [d \in Denoms |-> supply[d] - Tot(coins, d)] ELSE supply)

(* BankKeeper::init_balance ("adjusting bank accounts in genesis", callable at any time through init_modules):
   REPLACES the account's balance by the normalised coin list (zeros dropped, repeated denominations summed) *)
InitBal(to, coins) ==
    /\ last = NoOp
    /\ \A d \in Denoms : supply[d] - bal[to][d] + Tot(coins, d) <= Cap
    /\ LET row == [d \in Denoms |-> Tot(coins, d)]
           r == [ok |-> TRUE, bal |-> [bal EXCEPT ![to] = row]] IN
       Do([a |-> "init", from |-> to, to |-> to, coins |-> coins, ok |-> TRUE], r,
          [d \in Denoms |-> supply[d] - bal[to][d] + Tot(coins, d)])

(* BankKeeper::set_denom_metadata: stored as given, replaces what was there *)
SetMeta(d, m) ==
    /\ last = NoOp
    /\ meta' = [meta EXCEPT ![d] = m]
    /\ LET op == [a |-> "setmeta", from |-> d, to |-> m, coins |-> <<>>, ok |-> TRUE] IN
       last' = op /\ hist' = Append(hist, op)
    /\ UNCHANGED <<bal, supply>>

(* the emitted script has been printed: back to a canonical state *)
Settle == /\ last # NoOp
          /\ last' = NoOp
          /\ UNCHANGED <<bal, supply, meta, hist>>

Next == \/ \E to \in Accounts, c \in CoinLists : Mint(to, c)
        \/ \E f \in Accounts, t \in Accounts, c \in CoinLists : Send(f, t, c)
        \/ \E f \in Accounts, c \in CoinLists : Burn(f, c)
        \/ \E d \in MetaDenoms, m \in MetaVals : SetMeta(d, m)
        \/ \E to \in Accounts, c \in InitLists : InitBal(to, c)
        \/ Settle

Spec == Init /\ [][Next]_vars

-----------------------------------------------------------------------------
(* C09 *)
RECURSIVE SumOver(_, _)
SumOver(S, d) == IF S = {} THEN 0
                 ELSE LET a == CHOOSE x \in S : TRUE IN bal[a][d] + SumOver(S \ {a}, d)

TypeOK == /\ \A a \in Accounts, d \in Denoms : bal[a][d] \in Nat
          /\ \A d \in Denoms : supply[d] \in Nat

(* the sum of all balances is what was minted minus what was burned *)
Conservation == \A d \in Denoms : SumOver(Accounts, d) = supply[d]

Positive(coins) == \E i \in 1..Len(coins) : coins[i][2] > 0
Covered(b, coins) == \A d \in Denoms : Tot(coins, d) <= b[d]

IsOp == last = NoOp /\ last' # NoOp

(* an operation fails exactly when it carries no positive amount or would overdraw (per
   denomination, repeated denominations summed), and then changes nothing *)
FailExactly ==
    [][(IsOp /\ last'.a \notin {"setmeta", "init"}) => LET op == last' IN
               /\ op.ok = (Positive(op.coins) /\ (op.a = "mint" \/ Covered(bal[op.from], op.coins)))
               /\ ~op.ok => (bal' = bal /\ supply' = supply)]_vars

(* a successful operation moves exactly the stated totals and touches nothing else *)
MovesExactly ==
    [][(IsOp /\ last'.ok /\ last'.a # "init") =>
        LET op == last' IN
        \A a \in Accounts, d \in Denoms :
            bal'[a][d] = bal[a][d]
                         - (IF op.a \in {"send", "burn"} /\ a = op.from THEN Tot(op.coins, d) ELSE 0)
                         + (IF op.a \in {"send", "mint"} /\ a = op.to THEN Tot(op.coins, d) ELSE 0)]_vars

SupplyExactly ==
    [][(IsOp /\ last'.ok /\ last'.a # "init") =>
        LET op == last' IN
        \A d \in Denoms :
            supply'[d] = supply[d] + (IF op.a = "mint" THEN Tot(op.coins, d) ELSE 0)
                                   - (IF op.a = "burn" THEN Tot(op.coins, d) ELSE 0)]_vars

(* init_balance replaces exactly one account's balance by the per-denomination totals of the list *)
InitExactly ==
    [][(IsOp /\ last'.a = "init") =>
        LET op == last' IN
        \A a \in Accounts, d \in Denoms :
            bal'[a][d] = IF a = op.to THEN Tot(op.coins, d) ELSE bal[a][d]]_vars

(* metadata and ledger are independent *)
MetaFrame ==
    [][IsOp => LET op == last' IN
               IF op.a = "setmeta"
               THEN bal' = bal /\ supply' = supply /\ meta' = [meta EXCEPT ![op.from] = op.to]
               ELSE meta' = meta]_vars

-----------------------------------------------------------------------------
(* replay scripts: printed in the state right after an operation *)
AccSeq == SetToSeq(Accounts)
DenSeq == SetToSeq(Denoms)

Script == [ ops    |-> hist,
            cap    |-> Cap,
            bal    |-> [i \in 1..Len(AccSeq) |->
                          << AccSeq[i], [j \in 1..Len(DenSeq) |-> << DenSeq[j], bal[AccSeq[i]][DenSeq[j]] >>] >>],
            supply |-> [j \in 1..Len(DenSeq) |-> << DenSeq[j], supply[DenSeq[j]] >>],
            meta   |-> [j \in 1..Len(DenSeq) |-> << DenSeq[j], meta[DenSeq[j]] >>] ]

Emit == last # NoOp => PrintT(ToJson(Script))
=============================================================================
