------------------------------- MODULE Bytes -------------------------------
(***************************************************************************)
(* Byte strings and ordered maps over them.                                *)
(*                                                                         *)
(* A byte string is a sequence of naturals; the order is lexicographic on  *)
(* the element order (the order of Vec<u8> / &[u8] in Rust).  A map is a   *)
(* TLA+ function whose domain is a finite set of byte strings.  RefGet and *)
(* RefRange are the *reference* semantics of cosmwasm_std::Storage::get    *)
(* and ::range for a plain ordered map (what MemoryStorage / BTreeMap do): *)
(* start inclusive, end exclusive, missing bound = unbounded, start >= end *)
(* gives the empty range, ascending or descending.                         *)
(***************************************************************************)
EXTENDS Integers, Sequences, FiniteSets, SequencesExt, Functions

(* "no value" / "no bound": a sequence (so that TLC can compare it with byte strings)
   that is not a byte string *)
None == << -1 >>

RECURSIVE LexLessRec(_, _)
LexLessRec(a, b) ==
    IF a = <<>> THEN b # <<>>
    ELSE IF b = <<>> THEN FALSE
    ELSE IF a[1] < b[1] THEN TRUE
    ELSE IF a[1] > b[1] THEN FALSE
    ELSE LexLessRec(Tail(a), Tail(b))

(* the same order without recursion, for very long strings (a 65535-byte namespace segment) *)
LexLessFlat(a, b) ==
    LET n == IF Len(a) < Len(b) THEN Len(a) ELSE Len(b)
        d == {i \in 1..n : a[i] # b[i]}
    IN IF d = {} THEN Len(a) < Len(b)
       ELSE LET i == CHOOSE x \in d : \A y \in d : x <= y IN a[i] < b[i]

LexLess(a, b) == IF Len(a) > 48 \/ Len(b) > 48 THEN LexLessFlat(a, b) ELSE LexLessRec(a, b)

LexLeq(a, b) == a = b \/ LexLess(a, b)

IsPrefixOf(p, k) == Len(p) <= Len(k) /\ SubSeq(k, 1, Len(p)) = p

(* keys of S in ascending order *)
SortedKeys(S) == SetToSortSeq(S, LexLess)

RECURSIVE RevSeq(_)
RevSeq(s) == IF s = <<>> THEN <<>> ELSE Append(RevSeq(Tail(s)), Head(s))

InBounds(k, s, e) ==
    /\ (s = None \/ LexLeq(s, k))
    /\ (e = None \/ LexLess(k, e))

EmptyMap == [k \in {} |-> None]

MapGet(m, k) == IF k \in DOMAIN m THEN m[k] ELSE None

MapSet(m, k, v) == [x \in DOMAIN m \cup {k} |-> IF x = k THEN v ELSE m[x]]

MapDel(m, k) == [x \in DOMAIN m \ {k} |-> m[x]]

RefGet(m, k) == MapGet(m, k)

(* sequence of <<key, value>> pairs *)
RefRange(m, s, e, ord) ==
    LET ks  == SortedKeys({k \in DOMAIN m : InBounds(k, s, e)})
        asc == [i \in 1..Len(ks) |-> <<ks[i], m[ks[i]]>>]
    IN IF ord = "asc" THEN asc ELSE RevSeq(asc)

(* every pair strictly ordered (hence no duplicates) *)
StrictlyOrdered(r, ord) ==
    \A i \in 1..(Len(r) - 1) :
        IF ord = "asc" THEN LexLess(r[i][1], r[i+1][1]) ELSE LexLess(r[i+1][1], r[i][1])

MapAsPairs(m) == RefRange(m, None, None, "asc")
=============================================================================
