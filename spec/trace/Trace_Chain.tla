---------------------------- MODULE Trace_Chain ----------------------------
(***************************************************************************)
(* Trace validation for the Chain layer (C01-C05, C08, C10-C13, C17):      *)
(* `mtv drive chain` runs random histories on a real App; what every       *)
(* contract invocation does is drawn at random when it happens and is      *)
(* recorded in invocation order (the script), together with what the       *)
(* invocation was told and could read, the result of the call and the      *)
(* observable state afterwards.  Programs are larger than the model-       *)
(* checking bounds (up to a dozen invocations, fan-out 3, every message    *)
(* kind).  TLC re-runs the evaluator of Chain on the recorded script and   *)
(* compares everything.                                                    *)
(***************************************************************************)
EXTENDS Chain, IOUtils

Rec == ndJsonDeserialize(IOEnv.TRACE)

(* module configuration used by the driver *)
TraceMods == [s \in {"custom", "staking", "distribution", "ibc", "gov", "stargate", "any"} |->
                IF s \in {"custom", "ibc", "any"} THEN "accept" ELSE "fail"]

(* ... and by its staking mode (`mtv drive chain-stake`): the real staking and distribution keepers *)
TraceModsStake == [s \in {"custom", "staking", "distribution", "ibc", "gov", "stargate", "any"} |->
                     IF s \in {"staking", "distribution"} THEN "real"
                     ELSE IF s \in {"custom", "ibc", "any"} THEN "accept" ELSE "fail"]

VARIABLES l, root, codes, block, bad
tvars == <<l, root, codes, block, bad>>

TraceInit == l = 1 /\ root = EmptyState /\ codes = [i \in {} |-> 0] /\ block = Block0 /\ bad = <<>>

(* ---- rendering the specification's values in the terms the harness logs ---- *)
Chunk(c) == CASE c = "SP" -> " " [] c = "US" -> "_" [] c = "L1" -> "a" [] OTHER -> c
RECURSIVE Cat(_)
Cat(s) == IF s = <<>> THEN "" ELSE Chunk(Head(s)) \o Cat(Tail(s))

(* events of native modules are recorded (and compared) by type only: their position is fixed by C03 / C04, their
   attributes belong to no listed property *)
NativeTypes == {"transfer", "delegate", "unbond", "redelegate", "withdraw_delegator_reward", "set_withdraw_address"}
RenderEv(e) == IF Cat(e.ty) \in NativeTypes THEN <<Cat(e.ty), <<>>>>
               ELSE << Cat(e.ty), [i \in 1..Len(e.attrs) |-> << Cat(e.attrs[i][1]), e.attrs[i][2] >>] >>
RenderEvs(evs) == [i \in 1..Len(evs) |-> RenderEv(evs[i])]

(* present-but-empty data encodes to no bytes whether wrapped or not *)
Canon(d) == IF d.t \in {"raw", "exec"} /\ d.d = "" THEN [t |-> "empty", a |-> "", d |-> ""] ELSE d
RenderResps(rs) == [i \in 1..Len(rs) |-> [ev |-> RenderEvs(rs[i].ev), data |-> Canon(rs[i].data)]]

FlatBank(st) == {<<a, d, st.bank[a][d]>> : a \in DOMAIN st.bank, d \in Denoms} \ {<<a, d, 0>> : a \in DOMAIN st.bank, d \in Denoms}
FlatReg(st, withLabel) ==
    {IF withLabel THEN <<c, st.reg[c].code, st.reg[c].creator, st.reg[c].admin, st.reg[c].label>>
     ELSE <<c, st.reg[c].code, st.reg[c].creator, st.reg[c].admin>> : c \in DOMAIN st.reg}
FlatCs(st) == UNION {{<<c, k, st.cs[c][k]>> : k \in DOMAIN st.cs[c]} : c \in DOMAIN st.cs}

FlatSk(st, t) == LET v == SkView(st, t) IN {<<k, v[k][1], v[k][2]>> : k \in DOMAIN v}

SeqSet(s) == {s[i] : i \in 1..Len(s)}
SameState(st, logged, withLabel, t) ==
    /\ SeqSet(logged.bank) = FlatBank(st)
    /\ SeqSet(logged.reg) = FlatReg(st, withLabel)
    /\ SeqSet(logged.cs) = FlatCs(st)
    /\ SeqSet(logged.sk) = FlatSk(st, t)          \* delegations and accumulated rewards as the staking queries show them

InvEntries(log) == SelectSeq(log, LAMBDA e : e.t = "inv")

SameSeq(e, o)   == e.entry = o.entry /\ e.c = o.c /\ e.reply.is = o.reply.is
SameInfo(e, o)  == e.flavour = o.flavour /\ e.sender = o.sender /\ e.funds = o.funds /\ e.block = o.block
SameReply(e, o) == e.reply.is =>
                      /\ e.reply.id = o.reply.id /\ e.reply.payload = o.reply.payload /\ e.reply.ok = o.reply.ok
                      /\ e.reply.ok => (RenderEvs(e.reply.ev) = o.reply.ev /\ Canon(e.reply.data) = Canon(o.reply.data))
SameReads(e, o) == SameState(e.reads, o.reads, FALSE, e.block.t)
SameInvocation(e, o) == SameSeq(e, o) /\ SameInfo(e, o) /\ SameReply(e, o) /\ SameReads(e, o)
WhichPart(e, o) == IF ~SameSeq(e, o) THEN "invocation.seq" ELSE IF ~SameInfo(e, o) THEN "invocation.info"
                   ELSE IF ~SameReply(e, o) THEN "invocation.reply" ELSE "invocation.reads"

(* the first difference between what the specification computes and what was recorded *)
Compare(e, r) ==
    LET inv == InvEntries(r.log) IN
    IF e.panicked THEN <<"panic">>
    ELSE IF r.need THEN <<"invocation.seq", "the specification expects another invocation", r.info>>
    ELSE IF Len(inv) # Len(e.obs) THEN <<"invocation.seq", "number of invocations", Len(e.obs), "specification", Len(inv)>>
    ELSE IF \E i \in 1..Len(inv) : ~SameInvocation(inv[i], e.obs[i])
    THEN LET i == CHOOSE j \in 1..Len(inv) : ~SameInvocation(inv[j], e.obs[j]) /\ \A k \in 1..(j-1) : SameInvocation(inv[k], e.obs[k])
         IN <<WhichPart(inv[i], e.obs[i]), i, inv[i].entry, inv[i].c, "recorded", e.obs[i].entry, e.obs[i].c>>
    ELSE IF r.ok # e.ok THEN <<"result", e.ok, "specification", r.ok>>
    ELSE IF r.ok /\ RenderResps(r.resps) # [i \in 1..Len(e.resps) |-> [ev |-> e.resps[i].ev, data |-> Canon(e.resps[i].data)]]
    THEN <<"responses", e.resps, "specification", RenderResps(r.resps)>>
    ELSE IF ~SameState(r.post, e.post, TRUE, block.t) THEN <<"state", "after the call; specification", r.post>>
    ELSE IF "settled" \in DOMAIN e /\ SeqSet(e.settled) # FlatBank([bank |-> Settled(r.post)])
    THEN <<"state", "balances once every pending unbonding is due; specification", Settled(r.post)>>
    ELSE IF [i \in 1..Len(r.rlog) |-> <<r.rlog[i].slot, r.rlog[i].sender>>] # e.rlog THEN <<"modules", e.rlog, "specification", r.rlog>>
    ELSE IF e.incons # <<>> THEN <<"views", e.incons>>
    ELSE <<>>

Line == Rec[l]

TraceStep ==
    /\ l <= Len(Rec)
    /\ l' = l + 1
    /\ CASE Line.ev = "reset" ->
              root' = EmptyState /\ codes' = [i \in {} |-> 0] /\ block' = Block0 /\ bad' = <<>>
         [] Line.ev = "admin" ->
              LET a == AdminCall(codes, block, Line.call) IN
              /\ codes' = a.codes /\ block' = a.block /\ root' = AfterAdmin(root, Line.call, a.block)
              /\ bad' = IF a.ok # Line.ok THEN <<"admin call result", Line.ok>>
                        ELSE IF ~SameState(AfterAdmin(root, Line.call, a.block), Line.post, TRUE, a.block.t)
                        THEN <<"state", "after the block update; specification", AfterAdmin(root, Line.call, a.block)>>
                        ELSE IF [i \in 1..Len(AdminRlog(root, Line.call, a.block)) |-> <<"bank", Pool>>] # Line.rlog
                        THEN <<"modules", Line.rlog, "specification", AdminRlog(root, Line.call, a.block)>>
                        ELSE <<>>
         [] Line.ev = "call" ->
              LET r == RunTx(root, codes, block, Line.call, Line.sc) IN
              /\ root' = r.post /\ UNCHANGED <<codes, block>>
              /\ bad' = Compare(Line, r)

TraceSpec == TraceInit /\ [][TraceStep]_tvars

ObsInv == \/ bad = <<>>
          \/ PrintT(<<"MISMATCH line", l - 1, bad>>) /\ FALSE

TraceAccepted ==
    \/ TLCGet("stats").diameter - 1 = Len(Rec)
    \/ /\ PrintT(<<"TRACE NOT ACCEPTED: consumed", TLCGet("stats").diameter - 1, "of", Len(Rec)>>)
       /\ FALSE
=============================================================================
