SPECIFICATION TraceSpec
INVARIANTS ObsInv MakeFunctional
POSTCONDITION TraceAccepted
CHECK_DEADLOCK FALSE
