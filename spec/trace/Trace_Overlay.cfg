SPECIFICATION TraceSpec
CONSTANTS
  Keys = {}
  Vals = {}
  MaxDepth = 99
  MaxOps = 0
INVARIANT ObsInv
POSTCONDITION TraceAccepted
CHECK_DEADLOCK FALSE
