SPECIFICATION TraceSpec
CONSTANTS
  Denoms = {"eth", "btc"}
  Mods <- TraceMods
  AddrMode = "simple"
INVARIANT ObsInv
POSTCONDITION TraceAccepted
CHECK_DEADLOCK FALSE
