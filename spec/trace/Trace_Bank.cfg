SPECIFICATION TraceSpec
CONSTANTS
  Accounts = {"a1", "a2", "a3", "a4", "a5"}
  Denoms = {"d1", "d2", "d3"}
  CoinLists = {}
  InitLists = {}
  MetaDenoms = {}
  MetaVals = {}
  Cap = 0
INVARIANT ObsInv
PROPERTY OkMatches
POSTCONDITION TraceAccepted
CHECK_DEADLOCK FALSE
