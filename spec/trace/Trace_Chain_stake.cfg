SPECIFICATION TraceSpec
CONSTANTS
  Denoms = {"eth", "btc"}
  Mods <- TraceModsStake
  AddrMode = "simple"
INVARIANT ObsInv
POSTCONDITION TraceAccepted
CHECK_DEADLOCK FALSE
