--------------------------- MODULE Trace_Overlay ---------------------------
(***************************************************************************)
(* Trace validation for C06: events recorded by `mtv drive overlay` from   *)
(* real StorageTransaction stacks are replayed through the actions of      *)
(* Overlay; every recorded read (get / range at any level) must equal both *)
(* the reference answer and the implementation-shaped algorithm's answer   *)
(* in the specification state after the event.                             *)
(***************************************************************************)
EXTENDS Overlay, IOUtils

Rec == ndJsonDeserialize(IOEnv.TRACE)

VARIABLE l      \* next line of the trace to consume
tvars == <<vars, l>>

TraceInit == Init /\ l = 1

Ev == Rec[l]

OpOf(e) == IF e.t = "set" THEN SetOp(e.k, e.v) ELSE DelOp(e.k)

TraceStep ==
    /\ l <= Len(Rec)
    /\ l' = l + 1
    /\ UNCHANGED <<nops, hist, lastlog>>
    /\ \/ Ev.ev = "reset"   /\ base' = EmptyMap /\ stack' = <<>>
       \/ Ev.ev = "write"   /\ WriteCore(OpOf(Ev))
       \/ Ev.ev = "push"    /\ PushCore(Ev.via)
       \/ Ev.ev = "commit"  /\ CommitCore
       \/ Ev.ev = "discard" /\ DiscardCore
       \/ Ev.ev = "look"    /\ UNCHANGED <<base, stack>>

TraceSpec == TraceInit /\ [][TraceStep]_tvars

(* observations of the line just consumed, checked in the state it led to *)
ObsOK(q) ==
    IF q.level > Depth THEN FALSE
    ELSE IF q.q = "get"
    THEN /\ q.r = RefGet(Flat(q.level), q.k)
         /\ q.r = ImplGet(q.level, q.k)
    ELSE /\ q.r = RefRange(Flat(q.level), q.s, q.e, q.o)
         /\ q.r = ImplRange(q.level, q.s, q.e, q.o)
         /\ StrictlyOrdered(q.r, q.o)

ObsInv ==
    l > 1 =>
      \A i \in 1..Len(Rec[l-1].obs) :
         LET q == Rec[l-1].obs[i] IN
         \/ ObsOK(q)
         \/ /\ PrintT(<<"MISMATCH line", l - 1, "query", q>>)
            /\ FALSE

TraceAccepted ==
    \/ TLCGet("stats").diameter - 1 = Len(Rec)
    \/ /\ PrintT(<<"TRACE NOT ACCEPTED: consumed", TLCGet("stats").diameter - 1, "of", Len(Rec)>>)
       /\ FALSE
=============================================================================
