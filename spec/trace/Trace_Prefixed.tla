--------------------------- MODULE Trace_Prefixed ---------------------------
(***************************************************************************)
(* Trace validation for C07: operations performed by `mtv drive prefixed`  *)
(* through App::prefixed_storage(_mut) / prefixed_multilevel_storage(_mut) *)
(* / storage(_mut) with arbitrary byte namespaces (including a 65535 x     *)
(* 0xFF segment), with the raw dump of the root store and sampled view     *)
(* ranges observed after every operation.  TLC recomputes every            *)
(* observation from the specification state.                               *)
(***************************************************************************)
EXTENDS Prefixed, IOUtils

Rec == ndJsonDeserialize(IOEnv.TRACE)

VARIABLE l
tvars == <<vars, l>>

TraceInit == Init /\ l = 1

Ev == Rec[l]

TraceStep ==
    /\ l <= Len(Rec)
    /\ l' = l + 1
    /\ UNCHANGED <<nops, hist, last>>
    /\ \/ Ev.ev = "reset"  /\ raw' = EmptyMap
       \/ Ev.ev = "set"    /\ raw' = MapSet(raw, Enc(Ev.p) \o Ev.k, Ev.v)
       \/ Ev.ev = "remove" /\ raw' = MapDel(raw, Enc(Ev.p) \o Ev.k)
       \/ Ev.ev \in {"ro_set", "ro_remove"} /\ Ev.res = "rejected" /\ raw' = raw

TraceSpec == TraceInit /\ [][TraceStep]_tvars

QueryOK(q) ==
    LET ns == Enc(q.p) IN
    IF q.q = "get"
    THEN q.r = MapGet(ViewMap(raw, ns), q.k)
    ELSE /\ q.r = RefWindow(raw, ns, q.s, q.e, q.o)
         /\ q.r = ImplViewRange(raw, ns, q.s, q.e, q.o)

ObsInv ==
    l > 1 =>
      LET e == Rec[l-1] IN
      /\ \/ e.raw = MapAsPairs(raw)
         \/ PrintT(<<"MISMATCH line", l - 1, "raw store differs; specification has", Len(MapAsPairs(raw)), "entries, observed", Len(e.raw)>>) /\ FALSE
      /\ \A i \in 1..Len(e.obs) :
            \/ QueryOK(e.obs[i])
            \/ PrintT(<<"MISMATCH line", l - 1, "query", i, [p |-> e.obs[i].p, q |-> e.obs[i].q]>>) /\ FALSE

TraceAccepted ==
    \/ TLCGet("stats").diameter - 1 = Len(Rec)
    \/ /\ PrintT(<<"TRACE NOT ACCEPTED: consumed", TLCGet("stats").diameter - 1, "of", Len(Rec)>>)
       /\ FALSE
=============================================================================
