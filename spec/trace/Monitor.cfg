SPECIFICATION Spec
INVARIANT FrameInv
POSTCONDITION TraceAccepted
CHECK_DEADLOCK FALSE
