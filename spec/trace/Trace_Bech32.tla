---------------------------- MODULE Trace_Bech32 ----------------------------
(***************************************************************************)
(* Trace validation for C18: every call of an address helper made by       *)
(* `mtv drive bech` (addr_humanize, addr_canonicalize, addr_validate,      *)
(* addr_make of MockApiBech32 / MockApiBech32m / the default MockApi, and  *)
(* the IntoAddr / IntoBech32 / IntoBech32m conversions) is recomputed with *)
(* the operators of Bech32.  The name -> bytes hash of addr_make is        *)
(* uninterpreted: it must be functional, injective on the observed names,  *)
(* and produce a 32-byte address valid under its own codec.                *)
(*                                                                         *)
(* Named don't-care: an input written entirely in upper case decodes under *)
(* BIP-173 but is not what an encoder writes; whether validate /           *)
(* canonicalize accept it is left open (if validate accepts it, it must    *)
(* return it unchanged).  The same holds for a correctly checksummed       *)
(* string with non-canonical padding (validate only).                      *)
(***************************************************************************)
EXTENDS Bech32, Json, IOUtils

Rec == ndJsonDeserialize(IOEnv.TRACE)

VARIABLES l, made
tvars == <<l, made>>

TraceInit == l = 1 /\ made = {}

Ev == Rec[l]

Variant(e) == IF e.codec = "bech32m" THEN "bech32m" ELSE "bech32"

AllUpper(s) == (\E i \in 1..Len(s) : IsUpper(s[i])) /\ ~(\E i \in 1..Len(s) : IsLower(s[i]))

(* the expected outcome of one call: [ok, out, dontcare] *)
Expected(e) ==
    LET v == Variant(e) IN
    CASE e.op = "humanize" ->
           [ok |-> "true", out |-> Encode(v, e.prefix, e.input), dc |-> FALSE]
      [] e.op = "canonicalize" ->
           LET d == Decode(v, e.input)
               good == d.ok /\ (IF e.codec = "default" THEN LowerSeq(d.hrp) = LowerSeq(e.prefix) ELSE d.hrp = e.prefix)
           IN [ok |-> IF good THEN "true" ELSE "false", out |-> IF good THEN d.bytes ELSE <<>>,
               dc |-> AllUpper(e.input) /\ e.codec # "default"]
      [] e.op = "validate" ->
           [ok |-> IF Valid(v, e.prefix, e.input) THEN "true" ELSE "false", out |-> e.input,
            dc |-> AllUpper(e.input) \/ NonCanonicalPadding(v, e.input)]
      [] e.op = "make" ->
           [ok |-> "true", out |-> e.out, dc |-> FALSE]

Matches(e) ==
    LET x == Expected(e) IN
    IF x.dc THEN (e.ok = "true" /\ e.op = "validate") => e.out = e.input
    ELSE /\ e.ok = x.ok
         /\ e.ok = "true" => e.out = x.out
         /\ e.op = "make" => LET d == Decode(Variant(e), e.out) IN
                             /\ Valid(Variant(e), e.prefix, e.out)
                             /\ Len(d.bytes) = 32

MadeKey(e) == <<e.codec, e.prefix, e.input>>

TraceStep ==
    /\ l <= Len(Rec)
    /\ l' = l + 1
    /\ made' = IF Ev.op = "make" /\ Ev.ok = "true" THEN made \cup {<<MadeKey(Ev), Ev.out>>} ELSE made

TraceSpec == TraceInit /\ [][TraceStep]_tvars

ObsInv ==
    l > 1 =>
      LET e == Rec[l-1] IN
      \/ Matches(e)
      \/ PrintT(<<"MISMATCH line", l - 1, [op |-> e.op, codec |-> e.codec, ok |-> e.ok], "specification", Expected(e).ok>>) /\ FALSE

(* addr_make is a function of (codec, prefix, name), injective in the name *)
MakeFunctional ==
    \A a \in made, b \in made :
        /\ (a[1] = b[1] => a[2] = b[2])
        /\ (a[1][1] = b[1][1] /\ a[1][2] = b[1][2] /\ a[1][3] # b[1][3]) => a[2] # b[2]
        /\ (a[1][2] # b[1][2]) => a[2] # b[2]

TraceAccepted ==
    \/ TLCGet("stats").diameter - 1 = Len(Rec)
    \/ /\ PrintT(<<"TRACE NOT ACCEPTED: consumed", TLCGet("stats").diameter - 1, "of", Len(Rec)>>)
       /\ FALSE
=============================================================================
