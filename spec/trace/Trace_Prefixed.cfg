SPECIFICATION TraceSpec
CONSTANTS
  B = 256
  Paths = {}
  ViewKeys = {}
  Vals = {}
  MaxOps = 0
  WrapUpperBound = FALSE
  FilterForeign = TRUE
INVARIANT ObsInv
POSTCONDITION TraceAccepted
CHECK_DEADLOCK FALSE
