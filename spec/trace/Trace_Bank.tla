----------------------------- MODULE Trace_Bank -----------------------------
(***************************************************************************)
(* Trace validation for C09: random histories executed by `mtv drive bank` *)
(* on a real App (amounts scaled by a per-run unit up to the 128-bit       *)
(* range); after every operation the harness logs Ok/Err and what the      *)
(* Balance / AllBalances / Supply queries said.  TLC recomputes everything *)
(* with the actions of Bank.                                               *)
(***************************************************************************)
EXTENDS Bank, IOUtils

Rec == ndJsonDeserialize(IOEnv.TRACE)

VARIABLE l
tvars == <<vars, l>>

TraceInit == Init /\ l = 1

Ev == Rec[l]

Result(e) ==
    IF e.a = "setmeta" THEN [ok |-> TRUE, bal |-> bal]
    ELSE IF e.a = "init" THEN [ok |-> TRUE, bal |-> [bal EXCEPT ![e.to] = [d \in Denoms |-> Tot(e.coins, d)]]]
    ELSE IF e.a = "mint" THEN MintTo(bal, e.to, e.coins)
    ELSE IF e.a = "send" THEN SendFromTo(bal, e.from, e.to, e.coins)
    ELSE BurnFrom(bal, e.from, e.coins)

TraceStep ==
    /\ l <= Len(Rec)
    /\ l' = l + 1
    /\ UNCHANGED <<last, hist>>
    /\ IF Ev.ev = "reset"
       THEN /\ bal' = [a \in Accounts |-> [d \in Denoms |-> 0]]
            /\ supply' = [d \in Denoms |-> 0]
            /\ meta' = [d \in Denoms |-> ""]
       ELSE LET r == Result(Ev) IN
            /\ bal' = r.bal
            /\ meta' = IF Ev.a = "setmeta" THEN [meta EXCEPT ![Ev.from] = Ev.to] ELSE meta
            /\ supply' = IF ~r.ok THEN supply
                         ELSE [d \in Denoms |-> supply[d]
                                 + (IF Ev.a = "mint" THEN Tot(Ev.coins, d) ELSE 0)
                                 - (IF Ev.a = "burn" THEN Tot(Ev.coins, d) ELSE 0)
                                 + (IF Ev.a = "init" THEN Tot(Ev.coins, d) - bal[Ev.to][d] ELSE 0)]

TraceSpec == TraceInit /\ [][TraceStep]_tvars

(* did the operation of line i succeed according to the specification?  (re-derived from the
   state change: a failing operation changes nothing, a succeeding one carries a positive coin) *)
ObsInv ==
    l > 1 =>
      LET e == Rec[l-1] IN
      e.ev = "op" =>
        /\ \/ e.incons = <<>>
           \/ PrintT(<<"MISMATCH line", l - 1, "queries disagree with each other", e.incons>>) /\ FALSE
        /\ \A i \in 1..Len(e.bal) : \A j \in 1..Len(e.bal[i][2]) :
              LET acc == e.bal[i][1]
                  c   == e.bal[i][2][j] IN
              \/ (c[3] = 0 /\ c[2] = bal[acc][c[1]])
              \/ PrintT(<<"MISMATCH line", l - 1, "balance", acc, c, "specification", bal[acc][c[1]]>>) /\ FALSE
        /\ \A j \in 1..Len(e.supply) :
              LET c == e.supply[j] IN
              \/ (c[3] = 0 /\ c[2] = supply[c[1]])
              \/ PrintT(<<"MISMATCH line", l - 1, "supply", c, "specification", supply[c[1]]>>) /\ FALSE
        /\ \A j \in 1..Len(e.meta) :
              \/ e.meta[j][2] = meta[e.meta[j][1]]
              \/ PrintT(<<"MISMATCH line", l - 1, "denom metadata", e.meta[j], "specification", meta[e.meta[j][1]]>>) /\ FALSE

(* Ok/Err is checked on the transition (needs the state before the operation) *)
OkMatches ==
    [][(l <= Len(Rec) /\ Ev.ev = "op") =>
          \/ Ev.ok = (IF Result(Ev).ok THEN "true" ELSE "false")
          \/ PrintT(<<"MISMATCH line", l, "result", Ev.ok, "specification", Result(Ev).ok>>) /\ FALSE]_tvars

TraceAccepted ==
    \/ TLCGet("stats").diameter - 1 = Len(Rec)
    \/ /\ PrintT(<<"TRACE NOT ACCEPTED: consumed", TLCGet("stats").diameter - 1, "of", Len(Rec)>>)
       /\ FALSE
=============================================================================
