------------------------------ MODULE BankOps ------------------------------
(***************************************************************************)
(* The arithmetic of the bank keeper (src/bank.rs) on a balance table:     *)
(* account -> (denomination -> amount).  An account missing from the table *)
(* has a zero balance in every denomination.  Implementation-shaped: zero  *)
(* coins filtered out, empty remainder is an error, debits coin by coin    *)
(* failing when a running balance would go negative, credits coin by coin, *)
(* a transfer is burn-then-mint.  Used by Bank.tla and Chain.tla.          *)
(***************************************************************************)
EXTENDS Integers, Sequences

CONSTANT Denoms

ZeroRow == [d \in Denoms |-> 0]
Row(tbl, a) == IF a \in DOMAIN tbl THEN tbl[a] ELSE ZeroRow
PutRow(tbl, a, r) == [x \in DOMAIN tbl \cup {a} |-> IF x = a THEN r ELSE tbl[x]]

RECURSIVE Tot(_, _)
(* total amount of denomination d in a coin list *)
Tot(coins, d) == IF coins = <<>> THEN 0
                 ELSE (IF Head(coins)[1] = d THEN Head(coins)[2] ELSE 0) + Tot(Tail(coins), d)

NonZero(coins) == SelectSeq(coins, LAMBDA c : c[2] # 0)

(* NativeBalance - Vec<Coin>: coin by coin; result [ok, b] *)
RECURSIVE SubCoins(_, _)
SubCoins(b, coins) ==
    IF coins = <<>> THEN [ok |-> TRUE, b |-> b]
    ELSE LET c == Head(coins) IN
         IF b[c[1]] < c[2] THEN [ok |-> FALSE, b |-> b]
         ELSE SubCoins([b EXCEPT ![c[1]] = @ - c[2]], Tail(coins))

RECURSIVE AddCoins(_, _)
AddCoins(b, coins) ==
    IF coins = <<>> THEN b
    ELSE AddCoins([b EXCEPT ![Head(coins)[1]] = @ + Head(coins)[2]], Tail(coins))

(* BankKeeper::burn / ::mint on a balance table; result [ok, bal] *)
BurnFrom(tbl, acc, coins) ==
    LET nz == NonZero(coins) IN
    IF nz = <<>> THEN [ok |-> FALSE, bal |-> tbl]
    ELSE LET r == SubCoins(Row(tbl, acc), nz) IN
         IF r.ok THEN [ok |-> TRUE, bal |-> PutRow(tbl, acc, r.b)]
         ELSE [ok |-> FALSE, bal |-> tbl]

MintTo(tbl, acc, coins) ==
    LET nz == NonZero(coins) IN
    IF nz = <<>> THEN [ok |-> FALSE, bal |-> tbl]
    ELSE [ok |-> TRUE, bal |-> PutRow(tbl, acc, AddCoins(Row(tbl, acc), nz))]

(* BankKeeper::send: burn from the sender, then mint to the recipient *)
SendFromTo(tbl, from, to, coins) ==
    LET r == BurnFrom(tbl, from, coins) IN
    IF r.ok THEN MintTo(r.bal, to, coins) ELSE r

=============================================================================
