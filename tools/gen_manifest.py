#!/usr/bin/env python3
"""Regenerates MANIFEST.json from the table below (kept next to check.py's CHECKS)."""
import json, os, sys
ROOT = os.path.dirname(os.path.dirname(os.path.abspath(__file__)))
sys.path.insert(0, ROOT)
HOOK_COMMITS = ["80cfb21", "2592ea0", "83f26ce"]

CLAIMS = {
 "C06": dict(engine="overlay", design="6/C06", technique="TLC exhaustive model checking of spec/Overlay.tla (impl-shaped merge vs reference ordered map) + replay of every reachable state on real StorageTransaction stacks + TLC trace validation of random real executions",
   text="Exhaustive (bounded keys/ops/depth) model checking of the write-cache design in TLA+, every explored state replayed into the real code with the full read battery compared against TLC's reference answers, and randomly driven real executions validated by TLC against the same specification.",
   note="Bounded: key alphabet of 3 symbols mapped order-preservingly to real bytes, <= 6 operations, <= 4 stacked caches exhaustively; random traces with arbitrary byte keys beyond. Trusted: TLC, MockStorage as base store, the pass-through `verif` wrappers."),
 "C07": dict(engine="prefixed", design="6/C07", technique="TLC exhaustive model checking of spec/Prefixed.tla (impl-shaped prefix range vs reference window; B=3 and B=256) + replay of every (operation, state) through App's prefixed-storage API + TLC trace validation of random/directed real executions incl. a 65535 x 0xFF namespace",
   text="Exhaustive bounded model checking of the namespacing design in TLA+ (window exactness, disjointness, frame), every explored transition replayed through the public prefixed-storage API of App with raw dump and full view battery compared to TLC's answers, plus TLC validation of recorded real executions with arbitrary byte namespaces.",
   note="Bounded: adversarial path/key sets over bytes 0x00/0x01/0xFF, <= 3 operations exhaustively; the B=3 configuration covers the all-maximal prefix at design level and a directed trace covers it with real bytes. Trusted: TLC, MockStorage."),
 "C09": dict(engine="bank", design="6/C09", technique="TLC exhaustive model checking of spec/Bank.tla (impl-shaped coin-by-coin arithmetic vs declarative per-denomination totals; conservation) + replay of every (operation, state) on a real App with 128-bit scaled amounts + TLC trace validation of random real histories + the Chain specification (menu funds) for the balances and the Supply query seen by contracts inside transactions; thorough tier additionally: Apalache proves the conservation invariant inductive with unbounded amounts (spec/apalache/BankInd.tla, design level)",
   text="Exhaustive bounded model checking of the ledger in TLA+ (conservation, exact movement, fail-exactly-when, no-op on failure), every explored transition replayed through App's bank entry points with all three query kinds compared to TLC's state, plus TLC validation of long random histories recorded from the real code.",
   note="Bounded: 3-4 accounts, 2 denominations, coin lists up to 3 coins over small amounts, supply <= Cap exhaustively; amounts scaled linearly up to 2^128-1; random histories (5 accounts, 3 denominations, hundreds of operations) validated by TLC. Trusted: TLC, cosmwasm-std queries."),
}

def _chain(pid, what, design):
    return dict(engine="chain", design=design,
      technique="TLC exhaustive enumeration of spec/Chain.tla + ChainGen.tla (transaction evaluator mirroring app.rs/wasm.rs, programs generated lazily in invocation order; declarative log-based invariants InvAtomic/InvEffective/InvReads/InvReply/InvEvents checked on every completed call) + replay of every generated call on a real App with scripted contracts, first-divergence attribution to the property's observables",
      text="Bounded exhaustive model checking of the transactional machine in TLA+ and conformance of the real code to it: every program TLC enumerates is executed on a real App (scripted contracts report what they are told and can read at every entry-point invocation) and compared with the specification's prediction. " + what,
      note="Bounded by Fuel (contract invocations per transaction), MaxTx and the per-property menus in spec/mc/MC_Chain.tla; contracts are scripted (arbitrary effects/queries/failures, not arbitrary Rust); error texts, gas, msg_responses and the attributes of native modules' events not compared (native events by type and position only). Trusted: TLC, cosmwasm-std mocks (MockApi, MockStorage), the harness's protobuf encoder for response data.")

CLAIMS.update({
 "C01": _chain("C01", "Focus: Ok/Err, responses per message, full post-state, raw storage byte-identical after Err; the repository's own tests validated as traces against spec/Monitor.tla (a failing entry point leaves the storage digest unchanged).", "6/C01"),
 "C02": _chain("C02", "Focus: what later invocations can read after a caught/uncaught failure, Ok/Err, post-state; second menu `stake`: staking/distribution messages with their real semantics sent by contracts and rolled back with failing siblings; random programs (with and without real staking) validated by TLC (Trace_Chain).", "6/C02"),
 "C03": _chain("C03", "Focus: exact sequence of entry-point invocations and the id/payload/result of each Reply; the repository's own tests validated as traces against spec/Monitor.tla (every executed sub-message and every reply call noted by hooks: a reply exactly for, and directly after, the sub-messages that ask for it).", "6/C03"),
 "C04": _chain("C04", "Focus: exact events and data bytes of every response and of every Reply.", "6/C04"),
 "C05": _chain("C05", "Focus: sender, own address, block, funds told and visible balances at every invocation; no invocation on overdraw.", "6/C05"),
 "C08": _chain("C08", "Focus: every contract's storage through four views at every invocation and after the call.", "6/C08"),
 "C10": _chain("C10", "Focus: query battery (balances, supply, contract info, raw storage, delegations and accumulated rewards) at every invocation (incl. after caught failures) and query purity/repeatability through App; the repository's own tests validated as traces against spec/Monitor.tla.", "6/C10"),
 "C11": _chain("C11", "Focus: code ids, CodeInfo, address binding (functional, injective), ContractInfo, serving code.", "6/C11"),
 "C12": _chain("C12", "Focus: Ok/Err of Migrate/UpdateAdmin/ClearAdmin, code id/admin/storage afterwards, serving code.", "6/C12"),
 "C13": _chain("C13", "Focus: Ok/Err for every class string as attribute key / event type, emitted events unchanged, rollback.", "6/C13"),
 "C17": _chain("C17", "Focus: which module was called with which sender and payload, Ok/Err, rollback on module failure; incl. the bank calls made by the real staking module (delegation transfer, payouts of a block update, reward mint); one query of every kind from every invocation; the library's own Accepting/Failing/Stargate stock modules behind the recording fronts (configurations stock*).", "6/C17"),
})

def _staking(what, design):
    return dict(engine="staking", design=design,
      technique="TLC exhaustive model checking of spec/Staking.tla (exact fixed-point shares/rewards on a time grid; invariants NoPanic, PoolSolvent, StakersConsistent, NoOverPay and action properties StakeMovesExactly, InvalidFails, PayoutTiming, WithdrawExact, SlashExact, SlashKeepsWhole; pre-repair transcriptions rejected) + replay of every (operation, state) on real StakeKeeper/DistributionKeeper comparing all observables after every operation",
      text="Bounded exhaustive model checking of the staking design in TLA+ and exact conformance of the real keepers to it on a grid where the code's 18-digit arithmetic is exact: " + what,
      note="Bounded: 1-2 delegators, 1-2 validators, amounts and fractions per configuration, up to 7 operations (reduced menu) / 3-4 (full menu); spec -> impl for Staking.tla, both directions for the composition in Chain.tla (no slashing there); off-grid rounding is outside the model. Trusted: TLC, cosmwasm-std Decimal, bank keeper.")
CLAIMS.update({
 "C14": _staking("delegation/undelegation/redelegation accounting, payout timing (incl. unbonding period 0 and block updates that do not move time), no panic; focus on balances, delegations, Ok/Err/panic. Extra stages on spec/Chain.tla with the real keepers composed in (menu stake; random mixed histories validated by TLC).", "6/C14"),
 "C15": _staking("pending rewards after every operation (block times with varying sub-second parts), withdrawals paying exactly what is shown to the withdraw address, others unaffected; design-level NoOverPay. Extra stages on spec/Chain.tla with the real keepers composed in (exact rewards on a second grid; random mixed histories with block updates of 0-17 s validated by TLC).", "6/C15"),
 "C16": _staking("slash effects on delegations, pending unbondings (observed at payout) and accrued rewards, rejection of fractions above one and unknown validators; whole-token results accepted up to dropped sub-token remainders.", "6/C16"),
})

CLAIMS.update({
 "C18": dict(engine="bech32", design="6/C18",
   technique="BIP-173/350 transcribed in TLA+ (spec/Bech32.tla); TLC evaluates the algebraic properties on an enumerated input set and recomputes every logged call of the real address helpers (trace validation, spec/trace/Trace_Bech32.tla)",
   text="An independent TLA+ transcription of Bech32/Bech32m checked by TLC for round trip, validity and rejection of every single-character substitution / case flip / other variant / other prefix on enumerated inputs, and used as the oracle for thousands of real API calls (humanize, canonicalize, validate, make, Into* conversions) on generated prefixes, byte strings, names and corruptions.",
   note="SHA-256 uninterpreted (functional/injective on observed names); all-upper-case inputs are a named don't-care; prefixes are lower-case HRPs incl. ones made of / ending in the separator character '1'; BCH error detection exercised, not proved. Trusted: TLC, CommunityModules Bitwise/Json."),
 "C19": dict(engine="twin", design="6/C19",
   technique="TLC enumerates every interleaving of two runs of the same history (spec/Twin.tla over the Chain evaluator, invariant Agree); each schedule executed on two live Apps with byte-identical comparison at equal positions of results, storage and of everything every contract invocation is handed (env, info, reply incl. gas_used, readable state); a third App with another Api runs first; same schedules in a second process; TLC-enumerated staking histories on two Apps under random interleavings",
   text="Exhaustive enumeration of interleavings of two independent application instances fed the same history, with the real code required to produce byte-identical results, ids, addresses, checksums and raw storage at equal positions, to agree with the specification's Ok/Err, and to reproduce the same transcripts in a second process.",
   note="Histories fixed in spec/mc/MC_Twin.tla plus enumerated staking histories; absence of hidden inputs observed on two instances / two processes, not proved. Trusted: TLC, std DefaultHasher for digests."),
 "C20": dict(engine="builder", design="6/C20",
   technique="TLC enumerates every sequence of builder steps up to MaxSteps (spec/Builder.tla: Keeps, OrderIndependent, InitOnce); each replayed on the real AppBuilder / ContractWrapper with tagged components and boundary values (block of height 0 / time 0 / empty chain id, storage holding data); wrappers with a supplied checksum also stored and duplicated; compile-time sequences from the real defaults",
   text="Exhaustive enumeration of step sequences (subsets, permutations, repetitions) of both builders with the real builders required to end up with exactly the supplied components, block, storage, entry points and checksum, and to run the initialisation function once against the supplied storage.",
   note="MaxSteps 3 (quick) / 5 (thorough); slots are normalised to tagged harness types first, real defaults covered by seven fixed sequences. Trusted: TLC, Rust type system for generically typed slots."),
})

def main():
    props = [json.loads(l) for l in open(os.path.join(ROOT, "properties.jsonl"))]
    checks, na = [], []
    for p in props:
        pid = p["id"]
        c = CLAIMS.get(pid)
        if not c:
            na.append({"property_id": pid, "reason": "check not built yet in this round (specification and harness in progress; see DESIGN.md section 6)"})
            continue
        checks.append({
            "property_id": pid,
            "quick_cmd": f"./check.py {pid} quick",
            "thorough_cmd": f"./check.py {pid} thorough",
            "evidence_file": f"/verif/evidence/{pid}.json",
            "replay_cmd_template": f"./check.py replay {pid} {{path}}",
            "engine": c["engine"],
            "level_claimed": {"category": c.get("level", "model_checking"), "text": c["text"], "design_ref": "DESIGN.md section " + c["design"]},
            "level_note": c["note"],
            "technique": c["technique"],
        })
    engines = {}
    for pid, c in CLAIMS.items():
        engines.setdefault(c["engine"], []).append(pid)
    man = {
        "version": 1,
        "setup_cmd": "./check.py setup",
        "hooks": {
            "guard": "cargo feature `verif` of cw-multi-test",
            "enable": "the harness crate /verif/harness depends on /repo with features = [\"verif\", ...]; `cargo build --release --offline` in /verif/harness",
            "baseline_off_cmd": "cd /repo && cargo test --workspace --no-fail-fast --offline",
            "source_commits": HOOK_COMMITS,
            "add_only": True,
        },
        "engines": [{"name": k, "path": f"/verif/spec + /verif/harness/src/{k}.rs", "serves_properties": sorted(v),
                     "kind_free_text": "TLA+ specification checked by TLC, bound to the code by script replay and trace validation"} for k, v in sorted(engines.items())],
        "checks": checks,
        "not_applicable": na,
        "notes": "All checks: ./check.py <Cxx> quick|thorough in /verif; exit 0 held / 1 VIOLATION / 2 tool error. Specifications in spec/, harness in harness/, findings in known_findings.json.",
    }
    json.dump(man, open(os.path.join(ROOT, "MANIFEST.json"), "w"), indent=1)
    print("checks:", [c["property_id"] for c in checks], "na:", len(na))

main()
