#!/bin/bash
# save_seed.sh <id>: copy the agent's patch and demonstration from /tmp/seed-<id> into /verif/seeded/<id>, remove the worktree
id="$1"; W=/tmp/seed-$id; S=/verif/seeded/$id
mkdir -p "$S"
( cd "$W" && git diff -- src Cargo.toml > "$S/patch.diff" )
cp "$W/tests/seeded_demo.rs" "$S/seeded_demo.rs" || exit 2
git -C /repo worktree remove --force "$W"; rm -rf "$W"
wc -l "$S/patch.diff" "$S/seeded_demo.rs"
