#!/usr/bin/env python3
"""prompt for a mutant-writing sub-agent that is given a PLACE in the code (files) and the list of all property
statements, and chooses itself which property its change breaks.   usage: agent_prompt2.py <tag> <files...>"""
import json, os, sys
tag, files = sys.argv[1], sys.argv[2:]
props = [json.loads(l) for l in open('/verif/properties.jsonl')]
wt = f"/tmp/seed-{tag}"
hint = os.environ.get('HINT', '')
plist = "\n".join(f"  {p['id']} — {p['title']}: {p['statement']} (It must hold {p['quantifier']['text']}.)" for p in props)
print(f"""You are helping to evaluate a verification framework by writing ONE realistic, subtle bug ("seeded change") into a Rust library.

The library is CosmWasm/cw-multi-test (an in-process simulator of a Cosmos chain for testing CosmWasm contracts). You have your own scratch git worktree of it at {wt} — work ONLY there. Do NOT read or touch /repo, /verif or any other directory outside {wt} (other than the Rust toolchain / cargo registry). The sandbox has no network: always use `cargo ... --offline`.

These are the semantic properties users of the library rely on:

{plist}

Your task:
1. Your change must be made in: {', '.join(files)} (under {wt}/). Read that code carefully, including rarely used functions, helper methods, default trait methods, feature-gated branches and error paths. Find a small, plausible-looking source change (the kind of mistake a maintainer could make in a refactor or "optimisation") that makes ONE of the properties above false. Prefer code paths that an ordinary test would not exercise.{(' Direction to look in: ' + hint) if hint else ''} State clearly WHICH property (its id) your change breaks.
2. The change MUST: (a) compile (`cargo build --offline --all-features` and default features), (b) leave the ENTIRE existing test-suite passing: run `cd {wt} && cargo test --offline` AND `cargo test --offline --all-features` and confirm zero failures, (c) break the property only in a SPECIFIC situation — a particular multi-step sequence of operations, a failure at a particular point in a message tree, an unusual input (special bytes, repeated denominations, zero amounts, boundary values), a particular configuration, or two cooperating sites that each look fine alone. Do NOT write a change that ordinary use exposes at once. Do not change public function signatures. Do not touch tests, Cargo.toml features or src/verif.rs. Avoid these already-used ideas: skipping "no-op" writes in the write cache; treating an empty range bound as unbounded; running instantiate before moving funds; dispatching migrate's messages as the admin; making wasm_sudo non-transactional; a cache only for some reply_on modes; HashSet ordering; wall-clock gas; a process-wide counter.
3. Write a demonstration: a new standalone integration test file {wt}/tests/seeded_demo.rs (cargo picks it up as its own test target next to tests/mod.rs) containing one or more #[test] functions that FAIL with your change and PASS without it. Verify both: run the demo with your change (fails), then revert the src change with `git diff -- src > patch.diff; git apply -R patch.diff` (keep the demo), run the demo again (passes), then re-apply with `git apply patch.diff` (do not use git stash).
4. Leave the worktree with your change applied and the demo present. Produce the patch with `cd {wt} && git diff -- src > {wt}/patch.diff` (source change only, not the demo). Run `cargo clean` at the end.
5. Final answer: report (o) the id of the property broken, (i) the file/lines changed and why it breaks the property, (ii) exactly what is needed for the breakage to manifest (the sequence / input / fault point), (iii) the commands you ran and their results (existing tests pass with change; demo fails with change and passes without).

Keep the source change small (ideally 1-10 lines). Leave {wt}/patch.diff and {wt}/tests/seeded_demo.rs in place.""")
