#!/usr/bin/env python3
"""prints the prompt given to a mutant-writing sub-agent for one property (property text only)"""
import json, sys
pid = sys.argv[1]
variant = sys.argv[2] if len(sys.argv) > 2 else ""
p = next(json.loads(l) for l in open('/verif/properties.jsonl') if json.loads(l)['id'] == pid)
wt = f"/tmp/seed-{pid}{variant}"
note = sys.argv[3] if len(sys.argv) > 3 else ""
print(f"""You are helping to evaluate a verification framework by writing ONE realistic, subtle bug ("seeded change") into a Rust library.

The library is CosmWasm/cw-multi-test (an in-process simulator of a Cosmos chain for testing CosmWasm contracts). You have your own scratch git worktree of it at {wt} — work ONLY there. Do NOT read or touch /repo, /verif or any other directory outside {wt} (other than the Rust toolchain / cargo registry). The sandbox has no network: always use `cargo ... --offline`.

The semantic property your change must BREAK:

  Title: {p['title']}
  Statement: {p['statement']}
  It must hold: {p['quantifier']['text']}

Your task:
1. Read the relevant source under {wt}/src and find a place where a small, plausible-looking source change (the kind of mistake a maintainer could make in a refactor or "optimisation") makes the property false.
2. The change MUST: (a) compile (`cargo build --offline --all-features` and default features), (b) leave the ENTIRE existing test-suite passing: run `cd {wt} && cargo test --offline` AND `cargo test --offline --all-features` and confirm zero failures, (c) break the property only in a SPECIFIC situation — e.g. a particular multi-step sequence of operations, a failure at a particular point in a message tree, an unusual input (special bytes, repeated denominations, zero amounts, boundary values), a particular nesting depth, or two cooperating sites that each look fine alone. Do NOT write a change that ordinary use exposes at once (the existing tests must not notice it, and a trivial smoke test should not notice it either). Do not change public function signatures. Do not touch tests, Cargo.toml features or src/verif.rs. {note}
3. Write a demonstration: a new integration test file {wt}/tests/seeded_demo.rs (tests/ is a directory of integration tests; check how {wt}/tests is organised — if integration tests are collected through a single tests/mod-style file, instead create a standalone file that cargo picks up as its own test target) containing one or more #[test] functions that FAIL with your change and PASS without it. Verify both: run the demo with your change (fails), then `git stash` the src change (keep the demo), run the demo again (passes), then `git stash pop`.
4. Leave the worktree with your change applied and the demo present. Produce the patch with `cd {wt} && git diff -- src > {wt}/patch.diff` (source change only, not the demo).
5. Final answer: report (i) the file/lines changed and why it breaks the property, (ii) exactly what is needed for the breakage to manifest (the sequence / input / fault point), (iii) the commands you ran and their results (existing tests pass with change; demo fails with change and passes without).

Keep the source change small (ideally 1-10 lines). Clean up build output you do not need, but leave {wt}/patch.diff and {wt}/tests/seeded_demo.rs in place.""")
