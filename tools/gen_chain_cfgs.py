#!/usr/bin/env python3
"""writes spec/mc/MC_Chain_<name>_<tier>.cfg from the table below"""
import os
ROOT = os.path.dirname(os.path.dirname(os.path.abspath(__file__)))
INV = "InvAtomic InvEffective InvReads InvReply InvEvents InvScriptUsed InvOneRespPerMsg InvPrivate InvConserve"
#        name        calls          menu          genesis        denoms            mods            (maxtx, fuel, level) quick / thorough
TABLE = [
 ("tree",    "TreeCalls",   "TreeMenu",   "Genesis0",     '{"eth"}',        "Mods0",         (1, 5, 1), (1, 7, 2)),
 ("atomic",  "AtomCalls",   "AtomMenu",   "Genesis0",     '{"eth"}',        "Mods0",         (2, 3, 1), (2, 4, 2)),
 ("reply",   "ReplyCalls",  "ReplyMenu",  "Genesis0",     '{"eth"}',        "Mods0",         (1, 4, 1), (1, 6, 2)),
 ("events",  "EventsCalls", "EventsMenu", "Genesis0",     '{"eth"}',        "Mods0",         (1, 3, 1), (1, 5, 2)),
 ("eventsE", "EventsECalls","EventsMenu", "GenesisRoute", '{"eth"}',        "Mods0",         (1, 3, 1), (1, 4, 2)),
 ("funds",   "FundsCalls",  "FundsMenu",  "GenesisFunds", '{"eth", "btc"}', "Mods0",         (2, 3, 1), (2, 4, 2)),
 ("private", "PrivCalls",   "PrivMenu",   "Genesis0",     '{"eth"}',        "Mods0",         (2, 3, 1), (2, 4, 2)),
 ("privcase","PrivCalls",   "PrivMenu",   "Genesis0",     '{"eth"}',        "Mods0",         (2, 3, 1), (2, 3, 1)),
 ("percode", "PcCalls",     "PcMenu",     "GenesisPC",    '{"eth"}',        "Mods0",         (2, 3, 1), (5, 3, 2)),
 ("registry","RegCalls",    "RegMenu",    "Genesis0",     '{"eth"}',        "Mods0",         (3, 2, 1), (4, 2, 2)),
 ("admin",   "AdmCalls",    "AdmMenu",    "GenesisAdm",    '{"eth"}',        "Mods0",         (2, 3, 1), (5, 3, 2)),
 ("strings", "StrCalls",    "StrMenu",    "Genesis0",     '{"eth"}',        "Mods0",         (1, 3, 1), (1, 3, 2)),
 ("routeacc","RouteCalls",  "RouteMenu",  "GenesisRoute",     '{"eth"}',        "ModsAcceptAll", (1, 3, 1), (1, 3, 2)),
 ("routemix","RouteCalls",  "RouteMenu",  "GenesisRoute",     '{"eth"}',        "ModsMixed",     (1, 3, 1), (1, 3, 2)),
 ("routefail","RouteCalls", "RouteMenu",  "GenesisRoute",     '{"eth"}',        "Mods0",         (1, 3, 1), (1, 3, 2)),
 ("stockacc","RouteCalls",  "RouteMenu",  "GenesisRoute",     '{"eth"}',        "ModsAcceptAll", (1, 3, 1), (1, 3, 2)),
 ("stockmix","RouteCalls",  "RouteMenu",  "GenesisRoute",     '{"eth"}',        "ModsMixed",     (1, 3, 1), (1, 3, 2)),
 ("stockfail","RouteCalls", "RouteMenu",  "GenesisRoute",     '{"eth"}',        "Mods0",         (1, 3, 1), (1, 3, 2)),
 ("stake",   "StakeCalls",  "StakeMenu",  "GenesisStake", '{"eth"}',        "ModsStake",     (3, 3, 1), (4, 3, 2)),
]
for name, calls, menu, gen, den, mods, q, t in TABLE:
    addrmode = "percode" if name == "percode" else "casepair" if name == "privcase" else "simple"   # casepair: like simple for the specification (all addresses distinct)
    for tier, (maxtx, fuel, level) in (("quick", q), ("thorough", t)):
        with open(os.path.join(ROOT, "spec", "mc", f"MC_Chain_{name}_{tier}.cfg"), "w") as f:
            f.write(f"""SPECIFICATION Spec
CONSTANTS
  Denoms = {den}
  Mods <- {mods}
  AddrMode = "{addrmode}"
  Stock = {"TRUE" if name.startswith("stock") else "FALSE"}
  MaxTx = {maxtx}
  Fuel = {fuel}
  Level = {level}
  Genesis <- {gen}
  CallMenu <- {calls}
  BehMenu <- {menu}
VIEW view
INVARIANTS {INV}
CHECK_DEADLOCK FALSE
""")
print("written", 2 * len(TABLE))
