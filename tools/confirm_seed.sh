#!/bin/bash
# confirm_seed.sh <dir under /verif/seeded> [demo cargo args]
# Confirms a seeded change in a fresh scratch worktree of /repo's HEAD:
#   existing suite passes with the change (default + all features), the demonstration fails with
#   the change and passes without it. Writes seeded/<id>/confirm.json. Removes the worktree.
id="$1"; shift
demo_args="${*:---all-features}"
S=/verif/seeded/$id
W=/tmp/confirm-$id
rm -rf "$W"; git -C /repo worktree prune
git -C /repo worktree add -q --detach "$W" HEAD || exit 2
cd "$W" || exit 2
export CARGO_NET_OFFLINE=true
res() { echo "\"$1\": \"$2\","; }
{
echo "{"
res head "$(git -C /repo rev-parse --short HEAD)"
if git apply "$S/patch.diff" 2>/dev/null || git apply --3way "$S/patch.diff" 2>/dev/null; then res patch_applies yes; else res patch_applies no; fi
t1=$(cargo test --offline 2>&1 | grep -E '^test result' | tr '\n' ' ')
res suite_default_with_change "$t1"
t2=$(cargo test --offline --all-features 2>&1 | grep -E '^test result' | tr '\n' ' ')
res suite_allfeatures_with_change "$t2"
cp "$S/seeded_demo.rs" tests/seeded_demo.rs
d1=$(cargo test --offline $demo_args --test seeded_demo 2>&1 | grep -E '^test result' | tr '\n' ' ')
res demo_with_change "$d1"
git checkout -q -- src 2>/dev/null; git reset -q 2>/dev/null; git checkout -q -- src
d2=$(cargo test --offline $demo_args --test seeded_demo 2>&1 | grep -E '^test result' | tr '\n' ' ')
res demo_without_change "$d2"
echo "\"demo_args\": \"$demo_args\""
echo "}"
} > "$S/confirm.json"
cd /; git -C /repo worktree remove --force "$W"; rm -rf "$W"
cat "$S/confirm.json"
