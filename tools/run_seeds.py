#!/usr/bin/env python3
"""Applies each seeded change in /verif/seeded/<dir> to /repo, runs the matching quick check (or the
checks listed in meta.json 'checks'), records whether it raised a VIOLATION, and reverts /repo.
usage: tools/run_seeds.py [ids...]      results -> seeded/<dir>/detect.json"""
import json, os, subprocess, sys, time
ROOT = "/verif"
def sh(cmd, **kw):
    return subprocess.run(cmd, shell=True, text=True, stdout=subprocess.PIPE, stderr=subprocess.STDOUT, **kw)
assert sh("git -C /repo status --porcelain --untracked-files=no").stdout.strip() == "", "/repo has uncommitted changes"
ids = sys.argv[1:] or sorted(os.listdir(f"{ROOT}/seeded"))
for d in ids:
    sd = f"{ROOT}/seeded/{d}"
    if not os.path.exists(f"{sd}/patch.diff"):
        continue
    pid = d[:3]
    checks = [pid]
    mp = f"{sd}/meta.json"
    if os.path.exists(mp):
        checks = json.load(open(mp)).get("checks", checks)
    r = sh(f"git -C /repo apply {sd}/patch.diff")
    if r.returncode != 0:
        print(d, "PATCH DOES NOT APPLY", r.stdout[:300]); continue
    out = {}
    try:
        for c in checks:
            t = time.time()
            r = sh(f"cd {ROOT} && ./check.py {c} quick")
            nviol = r.stdout.count("VIOLATION property=")
            first = next((l for l in r.stdout.splitlines() if l.startswith("VIOLATION")), "")
            detail = ""
            ls = r.stdout.splitlines()
            for i, l in enumerate(ls):
                if l.startswith("VIOLATION") and i + 1 < len(ls):
                    detail = ls[i + 1].strip()[:400]; break
            out[c] = {"exit": r.returncode, "violation_lines": nviol, "first": first, "detail": detail, "wall_s": round(time.time() - t, 1)}
            print(d, c, "exit", r.returncode, "violations", nviol, detail[:200], flush=True)
    finally:
        sh("git -C /repo checkout -- .")
    json.dump({"head": sh("git -C /repo rev-parse --short HEAD").stdout.strip(), "verif": sh("git -C /verif rev-parse --short HEAD").stdout.strip(), "results": out}, open(f"{sd}/detect.json", "w"), indent=1)
