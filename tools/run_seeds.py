#!/usr/bin/env python3
"""Tries each seeded change in /verif/seeded/<dir>: a scratch worktree of /repo's HEAD gets the patch, the matching
quick check (or the checks listed in meta.json 'checks') runs against that worktree (VERIF_REPO, see check.py: own
harness target directory, own output and evidence directories), and whether it raised a VIOLATION is recorded.
/repo itself is not touched, so registered checks can run at the same time. The worktree and the build output are removed.
usage: tools/run_seeds.py [ids...]      results -> seeded/<dir>/detect.json"""
import json, os, subprocess, sys, time, shutil
ROOT = "/verif"
def sh(cmd, **kw):
    return subprocess.run(cmd, shell=True, text=True, stdout=subprocess.PIPE, stderr=subprocess.STDOUT, **kw)
SEEDS = os.environ.get("SEED_DIR", "seeded")     # "benign": property-preserving changes (no check may alarm)
ids = sys.argv[1:] or sorted(os.listdir(f"{ROOT}/{SEEDS}"))
for d in ids:
    sd = f"{ROOT}/{SEEDS}/{d}"
    if not os.path.exists(f"{sd}/patch.diff"):
        continue
    pid = d[:3]
    checks = [pid]
    mp = f"{sd}/meta.json"
    if os.path.exists(mp):
        checks = json.load(open(mp)).get("checks", checks)
    if os.environ.get("SEED_CHECKS"):      # e.g. every check against one property-preserving change
        checks = os.environ["SEED_CHECKS"].split()
    wt = f"/tmp/seedrun{d}"
    sh(f"git -C /repo worktree remove --force {wt}; rm -rf {wt}; git -C /repo worktree prune")
    r = sh(f"git -C /repo worktree add -q --detach {wt} HEAD")
    if r.returncode != 0:
        print(d, "WORKTREE FAILED", r.stdout[:300]); continue
    tag = "-" + os.path.basename(wt)
    out = {}
    try:
        r = sh(f"git -C {wt} apply {sd}/patch.diff")
        if r.returncode != 0:
            # the patch was written against an earlier HEAD (hook or fix commits since): merge it
            r = sh(f"git -C {wt} apply --3way {sd}/patch.diff")
        if r.returncode != 0:
            print(d, "PATCH DOES NOT APPLY", r.stdout[:300]); continue
        for c in checks:
            t = time.time()
            r = sh(f"cd {ROOT} && VERIF_REPO={wt} ./check.py {c} quick")
            nviol = r.stdout.count("VIOLATION property=")
            first = next((l for l in r.stdout.splitlines() if l.startswith("VIOLATION")), "")
            detail = ""
            ls = r.stdout.splitlines()
            for i, l in enumerate(ls):
                if l.startswith("VIOLATION") and i + 1 < len(ls):
                    detail = ls[i + 1].strip()[:400]; break
            if r.returncode == 2:
                detail = "TOOL ERROR " + r.stdout[-400:]
            out[c] = {"exit": r.returncode, "violation_lines": nviol, "first": first, "detail": detail, "wall_s": round(time.time() - t, 1)}
            print(d, c, "exit", r.returncode, "violations", nviol, detail[:200], flush=True)
    finally:
        sh(f"git -C /repo worktree remove --force {wt}; rm -rf {wt}")
        shutil.rmtree(f"{ROOT}/harness/target{tag}", ignore_errors=True)
        shutil.rmtree(f"{ROOT}/out{tag}", ignore_errors=True)
    if out:
        json.dump({"head": sh("git -C /repo rev-parse --short HEAD").stdout.strip(), "verif": sh("git -C /verif rev-parse --short HEAD").stdout.strip(), "results": out}, open(f"{sd}/detect.json", "w"), indent=1)
