#!/usr/bin/env python3
"""prints a markdown table 'what each quick check ran' from evidence/*.json (used for DESIGN.md §0.6)"""
import json, glob, os
ROOT = os.path.dirname(os.path.dirname(os.path.abspath(__file__)))
print("| property | stages of the last quick run (from `evidence/<id>.json`) |")
print("|---|---|")
for f in sorted(glob.glob(os.path.join(ROOT, "evidence", "C*.json"))):
    d = json.load(open(f))
    st = []
    for s in d["coverage"]["stages"]:
        n = s["stage"]
        if n.endswith(":replay"):
            st[-1] += f" → {s.get('scripts')} scripts replayed on the real code"
        elif "distinct_states" in s:
            st.append(f"`{n}`: {s['distinct_states']} states")
        elif "behaviours_replayed" in s:
            st.append(f"`{n}`: {s['behaviours_replayed']} simulated behaviours replayed")
        elif "rejected_in_focus" in s:
            st.append(f"{n.split('(')[0].strip()} ({'real staking, ' if 'staking' in n else ''}{s['runs']} runs, {s['calls']} calls) validated by TLC")
        elif "test_threads_with_events" in s:
            st.append(f"repository tests under the monitor hooks: {s['events']} events validated by TLC")
        elif "violated" in s:
            st.append(f"`{n.split(' ')[0]}` rejected by TLC as intended ({s['violated']})")
        elif "digest_first" in s:
            st.append("cross-process digest comparison")
        else:
            st.append(n.split("(")[0].strip()[:70])
    print(f"| {d['property_id']} | " + "; ".join(st) + " |")
