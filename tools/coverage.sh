#!/bin/bash
# tools/coverage.sh: which lines of /repo/src do the quick checks execute?  Builds the harness with
# -C instrument-coverage (nightly, llvm-tools), runs every quick check with that binary (output in out-cov/),
# merges the profiles and prints a per-file summary; the annotated sources go to out-cov/coverage.txt.
cd "$(dirname "$0")/.."
set -e; set +e
( cd harness && LLVM_PROFILE_FILE=/tmp/mtv-cov-build-%p.profraw RUSTFLAGS="-C instrument-coverage" cargo +nightly build --release --offline --target-dir target-cov >/dev/null 2>&1 )
BIN=$PWD/harness/target-cov/release/mtv
rm -rf out-cov; mkdir -p out-cov/prof
export LLVM_PROFILE_FILE=$PWD/out-cov/prof/%p-%m.profraw VERIF_MTV=$BIN
for p in ${@:-C01 C02 C03 C04 C05 C06 C07 C08 C09 C10 C11 C12 C13 C14 C15 C16 C17 C18 C19 C20}; do
  ./check.py $p quick > out-cov/$p.log 2>&1; echo "$p rc=$?"
done
LLVM=$(dirname $(rustup +nightly which rustc))/../lib/rustlib/x86_64-unknown-linux-gnu/bin
$LLVM/llvm-profdata merge -sparse out-cov/prof/*.profraw -o out-cov/mtv.profdata
$LLVM/llvm-cov report $BIN -instr-profile=out-cov/mtv.profdata $(ls /repo/src/*.rs /repo/src/*/*.rs) 2>/dev/null | tee out-cov/summary.txt | cut -c1-160
$LLVM/llvm-cov show $BIN -instr-profile=out-cov/mtv.profdata $(ls /repo/src/*.rs /repo/src/*/*.rs) > out-cov/coverage.txt 2>/dev/null
rm -rf out-cov/prof /tmp/mtv-cov-build-*.profraw
