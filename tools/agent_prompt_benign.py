#!/usr/bin/env python3
"""prompt for a sub-agent that writes a PROPERTY-PRESERVING change (false-alarm probe): a realistic maintainer's change
in the given files that keeps all 20 properties true.   usage: agent_prompt_benign.py <tag> <kind> <files...>"""
import json, sys
tag, kind, files = sys.argv[1], sys.argv[2], sys.argv[3:]
props = [json.loads(l) for l in open('/verif/properties.jsonl')]
wt = f"/tmp/seed-{tag}"
plist = "\n".join(f"  {p['id']} — {p['title']}: {p['statement']} (It must hold {p['quantifier']['text']}.)" for p in props)
KINDS = {
 "refactor": "a behaviour-preserving refactoring (restructure control flow, extract helpers, replace a loop by iterator adaptors, change an internal data structure, reorder independent internal steps) — observable behaviour byte-for-byte unchanged",
 "perf": "a performance optimisation that is actually correct (avoid a clone, skip a provably redundant lookup or write, cache something per call, early-return in a case where the result is provably the same) — think hard about the corner cases so that it really is correct for every input",
 "layout": "a change of INTERNAL representation that no property fixes: the raw storage keys / namespaces / serialisation the library uses for its own bookkeeping (e.g. the name of an internal namespace, the key under which the contract registry or the staking info is stored, the order of fields of an internal struct), the wording of error messages, Debug output, log/attribute text inside error strings — anything users cannot rely on according to the properties",
 "feature": "a small additive feature or relaxation that leaves everything the properties talk about unchanged: a new public helper/accessor, a new optional builder step with a default that reproduces today's behaviour, extra validation of input that was never valid anyway, an additional attribute on an event emitted by a NATIVE module (bank/staking/distribution) — but nothing the properties pin down (C04 pins the wasm entry-point / wasm / wasm-* event composition and data; C13 pins attribute/event validation; etc.)",
}
print(f"""You are helping to evaluate a verification framework for FALSE ALARMS by writing ONE realistic change to a Rust library that does NOT break any of the properties below.

The library is CosmWasm/cw-multi-test (an in-process simulator of a Cosmos chain for testing CosmWasm contracts). You have your own scratch git worktree of it at {wt} — work ONLY there. Do NOT read or touch /repo, /verif or any other directory outside {wt} (other than the Rust toolchain / cargo registry). The sandbox has no network: always use `cargo ... --offline`.

These are the semantic properties users of the library rely on:

{plist}

Your task:
1. Make a change in: {', '.join(files)} (under {wt}/). Kind of change wanted: {KINDS[kind]}. It should be the kind of commit a maintainer would really merge, NOT trivial (not just a comment or a rename of a local variable): touch real logic, 10-60 changed lines, possibly several sites. It must keep EVERY property above true for every input, configuration and history — argue this carefully, property by property for those that the touched code is relevant to. If you find that your change would violate one of them in some corner case, fix the change until it does not.
2. The change MUST: (a) compile (`cargo build --offline --all-features` and default features), (b) leave the ENTIRE existing test-suite passing: run `cd {wt} && cargo test --offline` AND `cargo test --offline --all-features` and confirm zero failures. If an existing test pins something you changed (e.g. the exact wording of an error), choose something else — do not edit tests. Do not change public function signatures or remove public items. Do not touch tests, Cargo.toml or src/verif.rs, and leave the `#[cfg(feature = "verif")]` hook lines in place where they are (you may move surrounding code as long as the hooks keep observing the same points).
3. Leave the worktree with your change applied. Produce the patch with `cd {wt} && git diff -- src > {wt}/patch.diff`. Run `cargo clean` at the end.
4. Final answer: report (i) the files/lines changed and what the change does, (ii) why each relevant property still holds (and which observable things DO change, if any: error texts, internal storage keys, extra event attributes, ...), (iii) the commands you ran and their results.""")
