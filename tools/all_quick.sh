#!/bin/bash
# runs every registered check once (tier $1, default quick; ONLY="C16 C17" restricts the list); prints id, exit code, seconds
cd "$(dirname "$0")/.."
mkdir -p out; ./check.py setup || exit 2
for p in ${ONLY:-$(python3 -c "import json; print(' '.join(c['property_id'] for c in json.load(open('MANIFEST.json'))['checks']))")}; do
  s=$(date +%s); ./check.py $p ${1:-quick} > out/all_$p.log 2>&1; rc=$?; e=$(date +%s)
  echo "$p rc=$rc $((e-s))s $(grep -c VIOLATION out/all_$p.log) violations $(grep TOOL-ERROR out/all_$p.log | head -1 | cut -c1-200)"
done
