#!/usr/bin/env python3
"""check.py — orchestrates the TLA+/TLC checks of /verif against the code in /repo.

  ./check.py setup                      build the harness, parse every specification
  ./check.py <Cxx> quick|thorough       decide one property (exit 0 / 1 + VIOLATION line / 2 tool error)
  ./check.py replay <Cxx> <file>        re-run one recorded violating script / trace
  ./check.py selftest                   binding demonstrations (corrupted traces must be rejected)

Every check (1) model-checks the property's formulas on the specification with TLC,
(2) streams the behaviours TLC enumerated into the real code (harness `mtv replay`) and compares
every predicted observable, (3) where registered, records random executions of the real code
(`mtv drive`) and lets TLC validate them against the same specification, (4) writes
evidence/<Cxx>.json from the measured numbers.
"""
import json, os, re, shlex, subprocess, sys, time, glob, hashlib

ROOT = os.path.dirname(os.path.abspath(__file__))
SPEC = os.path.join(ROOT, "spec")
# The registered commands always decide /repo.  For trying seeded changes without touching /repo (other checks may
# be running against it), VERIF_REPO names a scratch worktree: the harness is then built against that tree into its
# own target directory, and output and evidence go to out-<tag>/ instead of out/ and evidence/.
REPO = os.environ.get("VERIF_REPO", "/repo")
ALT = "" if REPO == "/repo" else "-" + re.sub(r"[^A-Za-z0-9]", "", os.path.basename(REPO.rstrip("/")))
OUT = os.path.join(ROOT, "out" + ALT)
EVID = os.path.join(ROOT, "evidence") if not ALT else os.path.join(OUT, "evidence")
HARNESS = os.path.join(ROOT, "harness")
MTV = os.path.join(HARNESS, "target" + ALT, "release", "mtv")
# coverage measurement of the harness itself (tools/coverage.sh): a pre-built instrumented binary, own output directory
if os.environ.get("VERIF_MTV"):
    MTV = os.environ["VERIF_MTV"]
    OUT = os.path.join(ROOT, "out-cov")
    EVID = os.path.join(OUT, "evidence")
VIOL = os.path.join(OUT, "violations")
SEED = int(os.environ.get("VERIF_SEED", "20261002"))
NCPU = os.cpu_count() or 4
TLC_WORKERS = max(2, min(12, NCPU - 4))
JAR = "/opt/veriftools/tla/tla2tools.jar"


class ToolError(Exception):
    pass


def log(*a):
    print(*a, file=sys.stderr, flush=True)


def sh(cmd, timeout=None, env=None, cwd=None, check=False):
    e = dict(os.environ)
    if env:
        e.update(env)
    try:
        p = subprocess.run(cmd, shell=isinstance(cmd, str), cwd=cwd, env=e, timeout=timeout,
                           stdout=subprocess.PIPE, stderr=subprocess.PIPE, text=True, errors="replace")
    except subprocess.TimeoutExpired:
        raise ToolError(f"timeout after {timeout}s: {cmd}")
    if check and p.returncode != 0:
        raise ToolError(f"command failed ({p.returncode}): {cmd}\n{p.stdout[-2000:]}\n{p.stderr[-2000:]}")
    return p


# ----------------------------------------------------------------------------------------------
# building

def build_harness(features=None):
    """(re)build the harness against /repo's current working tree"""
    if os.environ.get("VERIF_MTV"):
        return
    cmd = ["cargo", "build", "--release", "--offline"]
    if ALT:
        cmd += ["--config", f'paths=["{REPO}"]', "--target-dir", os.path.join(HARNESS, "target" + ALT)]
    if features is not None:
        cmd += ["--no-default-features", "--features", features]
    t = time.time()
    p = sh(cmd, cwd=HARNESS, timeout=1500, env={"CARGO_NET_OFFLINE": "true"})
    if p.returncode != 0:
        raise ToolError("harness / repository does not build:\n" + p.stderr[-4000:])
    log(f"[build] harness ok in {time.time()-t:.1f}s")


# ----------------------------------------------------------------------------------------------
# TLC

def java_opts(extra=""):
    return f"-Xss512m -Xmx16g {extra}".strip()


class TlcResult:
    def __init__(self):
        self.generated = 0
        self.distinct = 0
        self.depth = 0
        self.coverage = {}
        self.cov_distinct = {}
        self.ok = False
        self.violated = None
        self.log = ""
        self.wall = 0.0


STATS_RE = re.compile(r"(\d[\d,]*) states generated, (\d[\d,]*) distinct states found")
COV_RE = re.compile(r"^<(\w+) line \d+, col \d+ to line \d+, col \d+ of module (\w+)(?: \([\d ]+\))?>: (\d+):(\d+)", re.M)
DEPTH_RE = re.compile(r"depth of the complete state graph search is (\d+)")


def parse_tlc(text, res):
    m = None
    for m in STATS_RE.finditer(text):
        pass
    if m:
        res.generated = int(m.group(1).replace(",", ""))
        res.distinct = int(m.group(2).replace(",", ""))
    m = DEPTH_RE.search(text)
    if m:
        res.depth = int(m.group(1))
    for m in COV_RE.finditer(text):
        name = m.group(1)
        res.coverage[name] = res.coverage.get(name, 0) + int(m.group(4))
        res.cov_distinct[name] = res.cov_distinct.get(name, 0) + int(m.group(3))
    res.ok = "Model checking completed. No error has been found." in text or \
             "Finished in" in text and "Error:" not in text and "is violated" not in text
    m = re.search(r"Invariant (\w+) is violated|Action property (\w+) is violated|property (\w+) is violated", text)
    if m:
        res.violated = next(g for g in m.groups() if g)
        res.ok = False
    if "Error:" in text and not res.violated:
        res.ok = False
    return res


def tlc_cmd(module, cfg, workers=None, coverage=True, simulate=None, depth=None, xmx="12g", tag="x", extra_java=""):
    meta = os.path.join(OUT, "tlc", tag)
    os.makedirs(meta, exist_ok=True)
    cmd = ["tlc"]  # the wrapper on PATH sets the classpath incl. CommunityModules
    cmd += ["-workers", str(workers or TLC_WORKERS), "-metadir", meta, "-cleanup", "-noGenerateSpecTE",
            "-config", cfg]
    if coverage:
        cmd += ["-coverage", "1"]
    if simulate:
        cmd += ["-simulate", f"num={simulate}", "-depth", str(depth or 50), "-seed", str(SEED)]
    cmd += [module]
    return cmd, meta


def run_tlc(module, cfg, timeout, tag, workers=None, coverage=True, simulate=None, depth=None,
            pipe_to=None, env=None, extra_java="", expect_ok=True):
    """run TLC from SPEC; optionally pipe its stdout into a harness command (list).
    returns (TlcResult, harness_report_or_None)"""
    if "Chain" in module or "Twin" in module:
        coverage = False   # -coverage hangs on the mutually recursive evaluator of Chain.tla
    cmd, meta = tlc_cmd(module, cfg, workers, coverage, simulate, depth, tag=tag)
    e = dict(os.environ)
    e["JAVA_TOOL_OPTIONS"] = java_opts(extra_java)
    if env:
        e.update(env)
    res = TlcResult()
    t = time.time()
    tlclog = os.path.join(OUT, "tlc", tag + ".log")
    report = None
    for attempt in (1, 2):
        try:
            if pipe_to:
                e2 = dict(e)
                e2["MTV_TLC_LOG"] = tlclog
                e2["MTV_TAG"] = tag
                e2["MTV_VIOL_DIR"] = VIOL
                if os.path.exists(tlclog):
                    os.remove(tlclog)
                p1 = subprocess.Popen(["timeout", str(timeout)] + cmd, cwd=SPEC, env=e, stdout=subprocess.PIPE,
                                      stderr=subprocess.DEVNULL)
                p2 = subprocess.Popen(pipe_to, stdin=p1.stdout, stdout=subprocess.PIPE, stderr=subprocess.PIPE,
                                      env=e2, text=True, errors="replace")
                p1.stdout.close()
                out2, err2 = p2.communicate()
                rc1 = p1.wait()
                text = open(tlclog, errors="replace").read() if os.path.exists(tlclog) else ""
                report = parse_report(out2, err2, p2.returncode)
            else:
                p = subprocess.run(["timeout", str(timeout)] + cmd, cwd=SPEC, env=e, stdout=subprocess.PIPE,
                                   stderr=subprocess.STDOUT, text=True, errors="replace")
                rc1 = p.returncode
                text = p.stdout
                with open(tlclog, "w") as f:
                    f.write(text)
        finally:
            subprocess.run(["rm", "-rf", meta])
        # the JVM was killed from outside (rc 137: the kernel's OOM killer on an overcommitted machine) or ran out of
        # memory: no verdict was reached - try once more before reporting a tool error
        if attempt == 1 and (rc1 == 137 or "OutOfMemoryError" in text or "insufficient memory" in text):
            log(f"[tlc] {tag}: JVM died without a verdict (rc={rc1}); retrying once")
            time.sleep(20)
            os.makedirs(meta, exist_ok=True)
            continue
        break
    res.wall = time.time() - t
    res.log = text
    parse_tlc(text, res)
    if rc1 == 124:
        raise ToolError(f"TLC timed out after {timeout}s ({tag})")
    if expect_ok and not res.ok and not res.violated:
        raise ToolError(f"TLC failed ({tag}, rc={rc1}):\n" + text[-3000:])
    return res, report


def parse_report(out, err, rc):
    m = None
    for line in out.splitlines():
        if line.startswith("MTV-REPORT "):
            m = json.loads(line[len("MTV-REPORT "):])
    if m is None:
        raise ToolError(f"harness produced no report (rc={rc}):\n{out[-2000:]}\n{err[-2000:]}")
    if rc not in (0, 1):
        raise ToolError(f"harness failed (rc={rc}):\n{err[-2000:]}")
    return m


def run_mtv(args, timeout=1800, env=None, tag="mtv"):
    e = {"MTV_VIOL_DIR": VIOL, "MTV_TAG": tag, "VERIF_SEED": str(SEED)}
    if env:
        e.update(env)
    p = sh([MTV] + args, timeout=timeout, env=e)
    return parse_report(p.stdout, p.stderr, p.returncode)


def validate_trace(module, cfg, trace, tag, timeout=900):
    """TLC as the judge of a recorded trace. returns (accepted: bool, TlcResult)"""
    res, _ = run_tlc(module, cfg, timeout, tag, workers=1, coverage=False,
                     env={"TRACE": trace},
                     extra_java="-Xmx6g -Dtlc2.tool.queue.IStateQueue=StateDeque", expect_ok=False)   # (the last -Xmx wins)
    accepted = res.ok and not res.violated and "TRACE NOT ACCEPTED" not in res.log and "MISMATCH" not in res.log
    if not accepted and not res.violated and "TRACE NOT ACCEPTED" not in res.log and "MISMATCH" not in res.log:
        raise ToolError(f"trace validation broke ({tag}):\n" + res.log[-3000:])
    return accepted, res


# ----------------------------------------------------------------------------------------------
# evidence, findings

class Evidence:
    def __init__(self, pid, tier, level="model_checking"):
        self.pid, self.tier, self.level = pid, tier, level
        self.t0 = time.time()
        self.states = 0
        self.transitions = 0
        self.traces = 0
        self.evaluations = 0
        self.nontrivial = 0
        self.samples = []
        self.rule = ""
        self.exhaustive = False
        self.assumptions = []
        self.runs = []
        self.violations = []   # list of (path, what)
        self.known = []        # KNOWN-FINDING lines
        self.extra = {}

    def add_tlc(self, name, res, required_actions=()):
        self.states += res.distinct
        self.transitions += res.generated
        cov = {k: v for k, v in res.coverage.items()}
        self.runs.append({"stage": name, "distinct_states": res.distinct, "states_generated": res.generated,
                          "depth": res.depth, "wall_s": round(res.wall, 1), "action_coverage": cov})
        for a in required_actions:
            if cov.get(a, 0) == 0:
                raise ToolError(f"vacuity: action {a} never taken in {name} (coverage {cov})")

    def add_report(self, name, rep, as_traces=True):
        n = rep.get("scripts", rep.get("runs", 0))
        if as_traces:
            self.traces += n
        self.evaluations += rep.get("checks", n)
        self.nontrivial += rep.get("distinct_nontrivial", 0)
        for s in rep.get("samples", [])[:2]:
            if len(self.samples) < 6:
                self.samples.append(s)
        self.runs.append({"stage": name, "scripts": n, "checks": rep.get("checks"),
                          "mismatches": rep.get("mismatch_count", 0), "extra": rep.get("extra", {})})
        for m in rep.get("mismatches", []):
            self.violations.append((m["path"], m["what"]))
        extra_mis = rep.get("mismatch_count", 0) - len(rep.get("mismatches", []))
        if extra_mis > 0:
            self.extra["further_mismatches_not_kept"] = self.extra.get("further_mismatches_not_kept", 0) + extra_mis

    def write(self, nviol):
        os.makedirs(EVID, exist_ok=True)
        cov = {
            "states": self.states, "transitions": self.transitions,
            "traces_validated_against_impl": self.traces,
            "samples": self.samples if self.samples else ["(no sample recorded)"],
            "evaluations": max(self.evaluations, 1), "distinct_nontrivial": self.nontrivial,
            "rule": self.rule, "exhaustive": self.exhaustive, "stages": self.runs,
        }
        cov.update(self.extra)
        ev = {"property_id": self.pid, "tier": self.tier, "seed": SEED, "level": self.level,
              "coverage": cov, "assumptions": self.assumptions,
              "wall_s": round(time.time() - self.t0, 1), "violations": nviol}
        with open(os.path.join(EVID, self.pid + ".json"), "w") as f:
            json.dump(ev, f, indent=1)
            f.write("\n")


def load_findings():
    p = os.path.join(ROOT, "known_findings.json")
    if not os.path.exists(p):
        return []
    return json.load(open(p)).get("findings", [])


def finding_matches(f, pid, what, script_text):
    if f.get("property") != pid or f.get("status") != "open":
        return False
    hay = json.dumps(what) + " " + script_text
    return all(s in hay for s in f.get("match_all", [])) and bool(f.get("match_all"))


def conclude(ev):
    """print KNOWN-FINDING / VIOLATION lines, write evidence, exit"""
    findings = load_findings()
    real = []
    known_hit = {}
    for path, what in ev.violations:
        try:
            text = open(path).read()
        except Exception:
            text = ""
        hit = None
        for f in findings:
            if finding_matches(f, ev.pid, what, text):
                hit = f
                break
        if hit:
            known_hit.setdefault(hit["id"], (hit, path))
        else:
            real.append((path, what))
    for fid, (f, path) in known_hit.items():
        print(f"KNOWN-FINDING: property={ev.pid} {f['what']} (example: {path})")
    ev.extra["known_findings_seen"] = sorted(known_hit)
    ev.write(len(real))
    for path, what in real[:10]:
        print(f"VIOLATION property={ev.pid} replay={path}")
        log("   ", json.dumps(what)[:600])
    sys.exit(1 if real else 0)


def spec_violation(ev, stage, res):
    """TLC found the specification itself violating a formula: that is a defect of the *design*
    (or of the transcription of the code's algorithm) - report with the TLC log as replay"""
    os.makedirs(VIOL, exist_ok=True)
    path = os.path.join(VIOL, f"{ev.pid}-{stage}-tlc.log")
    with open(path, "w") as f:
        f.write(res.log)
    ev.violations.append((path, {"tlc": f"{res.violated} violated in {stage}"}))


# ----------------------------------------------------------------------------------------------
# per-property procedures

def emit_cfg(base_cfg, name, extra_invariants=("Emit",), replace=None):
    """derive a configuration that additionally evaluates the emitting invariant"""
    src = open(os.path.join(SPEC, base_cfg)).read()
    if replace:
        for a, b in replace.items():
            src = src.replace(a, b)
    src += "\nINVARIANTS " + " ".join(extra_invariants) + "\n"
    d = os.path.join(OUT, "cfg")
    os.makedirs(d, exist_ok=True)
    p = os.path.join(d, name)
    with open(p, "w") as f:
        f.write(src)
    return p


def check_C06(tier, ev):
    ev.rule = ("TLC enumerates every sequence of set/remove/push(raw|transactional)/commit/discard up to MaxOps over "
               "the key set; each distinct reachable state is replayed on real StorageTransaction stacks and the "
               "complete read battery (every key, every bound pair incl. none/equal/inverted, both orders, every level "
               "incl. the base) is compared with the reference answers printed by TLC. Non-trivial = some level's "
               "content differs from the base (distinct operation sequences counted).")
    ev.assumptions += ["keys are model byte strings mapped to real bytes through order-preserving alphabets "
                       "(0x00/0x01/0xFF, ...); the merge only depends on key order",
                       "exhaustive within MaxOps operations and MaxDepth caches; random traces beyond that",
                       "hook: cargo feature `verif` exposes the private write-cache through pass-through wrappers"]
    if tier == "quick":
        runs = [("mc/MC_Overlay_quick.cfg", 600), ("mc/MC_Overlay_long.cfg", 900)]
        ntr, ltr = 30, 150
    else:
        runs = [("mc/MC_Overlay_quick.cfg", 600), ("mc/MC_Overlay_thorough.cfg", 3000), ("mc/MC_Overlay_deep.cfg", 3000)]
        ntr, ltr = 400, 300
    for cfg, to in runs:
        mc_and_replay(ev, "mc/MC_Overlay.tla", cfg, "overlay", to, ["Write", "Push", "Commit", "Discard"])
    ev.exhaustive = True
    drive_and_validate(ev, "overlay", ntr, ltr, "trace/Trace_Overlay.tla", "trace/Trace_Overlay.cfg")


def drive_and_validate(ev, layer, n, length, module, cfg, extra_args=()):
    """impl -> spec: record random executions of the real code, let TLC judge them"""
    pid = ev.pid
    tr = os.path.join(OUT, f"{pid}-drive.ndjson")
    rep = run_mtv(["drive", layer, str(n), str(length), tr] + list(extra_args), tag=f"{pid}-drive")
    ok, res = validate_trace(module, cfg, tr, f"{pid}-trace")
    ev.runs.append({"stage": "drive+trace-validation", "runs": rep["runs"], "events": rep["events"],
                    "accepted": ok, "tlc_states": res.distinct})
    ev.traces += rep["runs"]
    ev.evaluations += rep["events"]
    if res.distinct < rep["events"] and ok:
        raise ToolError(f"trace validation consumed {res.distinct} states for {rep['events']} events")
    if not ok:
        keep = os.path.join(VIOL, f"{pid}-trace.ndjson")
        os.makedirs(VIOL, exist_ok=True)
        os.replace(tr, keep)
        m = re.search(r'MISMATCH line", (\d+)', res.log)
        ev.violations.append((keep, {"trace_rejected_at_line": m.group(1) if m else "?",
                                     "tlc": [l for l in res.log.splitlines() if "MISMATCH" in l or "NOT ACCEPTED" in l][:3]}))
    elif os.path.exists(tr):
        os.remove(tr)


def validate_trace_parallel(module, cfg, trace, tag, chunks, timeout=1500):
    """split a trace (whose events are independent across chunk borders) and validate the chunks concurrently"""
    import threading
    lines = open(trace).read().splitlines()
    chunks = max(1, min(chunks, len(lines) // 50 or 1))
    size = (len(lines) + chunks - 1) // chunks
    results = [None] * chunks
    def work(i):
        part = f"{trace}.{i}"
        with open(part, "w") as f:
            f.write("\n".join(lines[i * size:(i + 1) * size]) + "\n")
        try:
            results[i] = validate_trace(module, cfg, part, f"{tag}-{i}", timeout) + (part, i * size)
        except ToolError as e:
            results[i] = e
        except Exception as e:
            results[i] = ToolError(f"trace validation worker {i}: {e!r}")
    ts = [threading.Thread(target=work, args=(i,)) for i in range(chunks)]
    [t.start() for t in ts]
    [t.join() for t in ts]
    for r in results:
        if isinstance(r, Exception):
            raise r
        if r is None:
            raise ToolError("a trace validation worker produced no result")
    return results


def check_C18(tier, ev):
    ev.rule = ("(1) TLC evaluates the algebraic properties of the BIP-173/350 transcription (round trip, validity, rejection of "
               "the other variant / other prefixes / EVERY single-character substitution over 38 substitutes / every case "
               "flip) for every input of an enumerated set; (2) the harness calls addr_humanize / addr_canonicalize / "
               "addr_validate / addr_make and the IntoAddr / IntoBech32 / IntoBech32m conversions of the real codecs on "
               "generated prefixes (1-10 characters, incl. prefixes extending each other), byte strings of 1-64 bytes, names, "
               "and corruptions of valid addresses (quick: sampled substitutions; thorough: every position x every "
               "substitute), and TLC recomputes every logged call with the transcription. Non-trivial = calls on corrupted "
               "/ foreign inputs (counted: events whose expected result is a rejection).")
    ev.assumptions += ["SHA-256 (addr_make) is uninterpreted: functional, injective on the observed names, 32 bytes, valid under its codec",
                       "inputs written entirely in upper case are a named don't-care (BIP-173 accepts them, an encoder never writes them)",
                       "prefix domain: lower-case HRPs; an upper-case prefix (accepted by the HRP parser) makes addr_make produce "
                       "addresses its own addr_validate rejects - borderline, not asserted",
                       "the BCH code's guaranteed error detection is exercised, not proved"]
    cfg = "mc/MC_Bech32_quick.cfg" if tier == "quick" else "mc/MC_Bech32_thorough.cfg"
    res, _ = run_tlc("mc/MC_Bech32.tla", cfg, 3000, "C18-mc")
    ev.add_tlc(os.path.basename(cfg)[:-4], res, ["Next"])
    if res.violated:
        spec_violation(ev, "mc", res)
    tr = os.path.join(OUT, "C18-drive.ndjson")
    npref, level, chunks = (4, 1, 8) if tier == "quick" else (10, 2, 12)
    rep = run_mtv(["drive", "bech", str(npref), str(level), tr], tag="C18-drive")
    results = validate_trace_parallel("trace/Trace_Bech32.tla", "trace/Trace_Bech32.cfg", tr, "C18-trace", chunks)
    lines = [json.loads(l) for l in open(tr)]
    ev.traces += rep["events"]
    ev.evaluations += rep["events"]
    ev.nontrivial += len({json.dumps([e["op"], e["codec"], e["prefix"], e["input"]]) for e in lines if e["ok"] != "true"})
    ev.samples += [{k: (bytes(e[k]).decode("latin1") if k in ("prefix",) or (k in ("input", "out") and e["op"] != "humanize" and k == "input") else e[k]) for k in e} for e in lines[:2]]
    ev.states += sum(r[1].distinct for r in results)
    ev.transitions += sum(r[1].generated for r in results)
    ev.runs.append({"stage": "drive+trace-validation", "events": rep["events"], "prefixes": rep["runs"],
                    "chunks": len(results), "accepted": all(r[0] for r in results)})
    for ok, r, part, off in results:
        if not ok:
            keep = os.path.join(VIOL, f"C18-trace-{off}.ndjson")
            os.replace(part, keep)
            m = re.search(r'MISMATCH line",\s*(\d+)', r.log)
            ev.violations.append((keep, {"trace_rejected_at_line": m.group(1) if m else "?",
                                         "tlc": [l for l in r.log.splitlines() if "MISMATCH" in l or "NOT ACCEPTED" in l or "violated" in l][:4]}))
        elif os.path.exists(part):
            os.remove(part)
    if os.path.exists(tr):
        os.remove(tr)


def check_C20(tier, ev):
    ev.rule = ("TLC enumerates every sequence of up to MaxSteps with_* steps (every subset, every permutation, repeated steps) of "
               "AppBuilder (11 slots plus four boundary-VALUE steps: a block of height 0 / time 0 / empty chain id, a storage that already holds data; followed by build) and of ContractWrapper (with_sudo/_empty, with_reply/_empty, "
               "with_migrate/_empty, with_checksum); each sequence is applied to the real builder in a run-time loop (slots "
               "normalised to tagged harness types; the k-th step supplies the value tagged k); observed: which tagged component "
               "serves every message kind, api, the whole BlockInfo, the storage object and its supplied contents, what the initialisation function is handed and how often it "
               "runs, which supplied function serves sudo/reply/migrate, checksum(). Seven compile-time sequences start from "
               "the library's real defaults. Non-trivial = sequences of at least two steps (distinct sequences counted).")
    ev.assumptions += ["generically typed slots cannot be mixed up by construction (type system); the check observes run-time identity"]
    cfg = f"mc/MC_Builder_{tier}.cfg"
    mc_and_replay(ev, "Builder.tla", cfg, "builder", 3000, ["Build", "Next"], emitting=[])
    ev.exhaustive = True


def check_C19(tier, ev):
    ev.rule = ("TLC enumerates EVERY interleaving of two runs of the same history (store code / explicit id / duplicate, classic and "
               "salted instantiation, execution with caught and uncaught failures, failing instantiation, bank, block update, sudo) "
               "and checks Agree on the specification; each complete schedule is executed on two live Apps in one process: at equal "
               "positions Ok/Err, events, data bytes, code ids, checksums, contract addresses, block and the raw storage dump must "
               "be byte-identical, and every Ok/Err must be what the specification says. Before the two Apps are stepped, a third "
               "application with another Api (bech32m, other prefix) runs the history in the same thread. The same schedules are "
               "run in a second process WITHOUT that disturber and the transcript digests compared. Staking histories (two delegators on one validator, slashing, "
               "unbonding) are run on two fresh Apps under a random interleaving with the same comparison. Non-trivial = "
               "distinct (history, schedule) pairs / distinct staking histories of at least two operations.")
    ev.assumptions += ["absence of hidden inputs is observed across two instances and two processes, not proved",
                       "histories are the fixed ones of spec/mc/MC_Twin.tla plus the TLC-enumerated staking histories"]
    cfg = f"mc/MC_Twin_{tier}.cfg"
    # (no -coverage: TLC's coverage instrumentation does not terminate on the recursive evaluator of Chain)
    res, rep = mc_and_replay(ev, "mc/MC_Twin.tla", cfg, "twin", 600, [], emitting=[], coverage=False)
    d1 = rep["extra"].get("transcript_digest")
    # the same for a history with the real staking and distribution keepers composed in
    mc_and_replay(ev, "mc/MC_Twin.tla", f"mc/MC_Twin_stake_{tier}.cfg", "twin", 600, [], emitting=[], coverage=False)
    # second process, later: same schedules, same transcripts?
    c = emit_cfg(cfg, os.path.basename(cfg)[:-4] + "_emit.cfg")
    res2, rep2 = run_tlc("mc/MC_Twin.tla", c, 600, "C19-twin-second", workers=1, coverage=False,
                         pipe_to=[MTV, "replay", "twin", "-"], env={"MTV_NO_DISTURBER": "1"})
    ev.add_report("second process", rep2, as_traces=False)
    # (TLC with one worker prints the schedules in a fixed order only per run; compare per-script digests instead of order)
    d2 = rep2["extra"].get("transcript_digest")
    ev.runs.append({"stage": "cross-process", "digest_first": d1, "digest_second": d2})
    if d1 != d2:
        os.makedirs(VIOL, exist_ok=True)
        path = os.path.join(VIOL, "C19-crossprocess.json")
        json.dump({"layer": "twin", "what": "transcripts of two processes differ", "first": d1, "second": d2}, open(path, "w"))
        ev.violations.append((path, {"cross_process": "the same schedules gave different transcripts in a second process"}))
    st_cfg = "mc/MC_Staking_quick4.cfg" if tier == "quick" else "mc/MC_Staking_dust.cfg"
    mc_and_replay(ev, "mc/MC_Staking.tla", st_cfg, "twin-staking", 3000, ["Delegate", "Undelegate", "Slash", "Advance"],
                  emitting=["Delegate"])
    ev.exhaustive = True


def mc_and_replay(ev, module, cfg, layer, timeout, required_actions, emit=("Emit",), emitting=None,
                  coverage=True, env=None, need_features=()):
    name = os.path.basename(cfg)[:-4]
    c = emit_cfg(cfg, name + "_emit.cfg", emit)
    res, rep = run_tlc(module, c, timeout, f"{ev.pid}-{name}", pipe_to=[MTV, "replay", layer, "-"],
                       coverage=coverage, env=env)
    ev.add_tlc(name, res, required_actions)
    for f in need_features:
        if not rep.get("extra", {}).get(f):
            raise ToolError(f"vacuity: no generated program has feature '{f}' in {name} ({rep.get('extra')})")
    if res.violated:
        spec_violation(ev, name, res)
    ev.add_report(name + ":replay", rep)
    # states that print a script: all distinct states except the initial one and the canonical ones reached by Settle
    expected = res.distinct if emitting is None else res.distinct - res.cov_distinct.get("Settle", 0) - 1
    if emitting == []:
        expected = 1
    if not coverage:
        expected = 1
    if rep["scripts"] < expected and not res.violated:
        raise ToolError(f"only {rep['scripts']} of {expected} emitted states reached the harness")
    return res, rep


def check_C07(tier, ev):
    ev.rule = ("TLC enumerates every sequence of set/remove/read-only-write through every namespace path of an adversarial "
               "path set (empty path, empty segment, 0xFF segments, nested paths, keys that spell another namespace's raw "
               "prefix); for every (operation, resulting state) the operations are replayed through App::prefixed_storage(_mut), "
               "prefixed_multilevel_storage(_mut) and storage(_mut); the raw dump of the root store and the read battery of "
               "every view (every key, every bound pair, both orders, read-only and mutable view) are compared with TLC's "
               "answers. Non-trivial = the store is non-empty afterwards (distinct operation sequences counted).")
    ev.assumptions += ["B = 256 configurations use the bytes 0x00, 0x01, 0xFF so that raw keys are real bytes; the B = 3 "
                       "configuration checks the design where 'all length bytes and all bytes maximal' is reachable",
                       "a 65535 x 0xFF segment is exercised by the directed run of the trace-validation stage",
                       "exhaustive within MaxOps operations; random traces with arbitrary namespaces beyond"]
    # design level, B = 3 (includes the all-maximal prefix)
    res, _ = run_tlc("mc/MC_Prefixed.tla", "mc/MC_Prefixed_b3.cfg", 900, "C07-b3")
    ev.add_tlc("MC_Prefixed_b3", res, ["ViewSet", "ViewRemove", "ReadonlyWrite"])
    if res.violated:
        spec_violation(ev, "b3", res)
    # non-vacuity: the upper bound as the code computed it before the repair must be rejected by TLC
    res, _ = run_tlc("mc/MC_Prefixed.tla", "mc/MC_Prefixed_b3_wrap.cfg", 900, "C07-b3wrap", expect_ok=False)
    if res.violated != "WindowExact":
        raise ToolError("vacuity: WindowExact does not reject the wrapping upper bound")
    ev.runs.append({"stage": "MC_Prefixed_b3_wrap (sanity: wrapping upper bound rejected)", "violated": res.violated})
    res, _ = run_tlc("mc/MC_Prefixed.tla", "mc/MC_Prefixed_b3_gap.cfg", 900, "C07-b3gap", expect_ok=False)
    if res.violated != "WindowExact":
        raise ToolError("vacuity: WindowExact does not reject reading foreign keys below the same-length upper bound")
    ev.runs.append({"stage": "MC_Prefixed_b3_gap (sanity: unfiltered range rejected)", "violated": res.violated})
    cfgs = ["mc/MC_Prefixed_quick.cfg"] if tier == "quick" else \
        ["mc/MC_Prefixed_quick.cfg", "mc/MC_Prefixed_thorough.cfg", "mc/MC_Prefixed_deep.cfg"]
    for cfg in cfgs:
        mc_and_replay(ev, "mc/MC_Prefixed.tla", cfg, "prefixed", 3000, ["ViewSet", "ViewRemove", "ReadonlyWrite"])
    ev.exhaustive = True
    n, ln = (12, 40) if tier == "quick" else (150, 80)
    drive_and_validate(ev, "prefixed", n, ln, "trace/Trace_Prefixed.tla", "trace/Trace_Prefixed.cfg")


def check_C09(tier, ev):
    ev.rule = ("TLC enumerates, from every reachable balance table (3-4 accounts, 2 denominations, supply <= Cap), every "
               "mint/send/burn with every coin list of the menu (length <= 2 over amounts {0,1,2} plus three-coin lists with "
               "repeated denominations and zeros; self-transfers and never-funded recipients included); every (operation, "
               "resulting state) is replayed on a real App (BankSudo::Mint, BankMsg::Send via execute and send_tokens, "
               "BankMsg::Burn) with amounts scaled by a per-script unit in {1, 1e6, 1e18, (2^128-1)/Cap}; Ok/Err of every "
               "operation and Balance/AllBalances/Supply of every account and denomination are compared with TLC's state. "
               "A Chain stage (menu `funds`) compares the balances and the Supply query seen by contracts INSIDE transactions. "
               "Non-trivial = last operation fails, is a self-transfer, or carries zero/repeated-denomination coins.")
    ev.assumptions += ["amounts are linear: scaling by a unit preserves every comparison and sum the bank makes",
                       "contract-initiated transfers: Chain specification, menu funds (balances and supply seen inside transactions)",
                       "exhaustive over the coin-list menu from every reachable table within Cap; random histories beyond"]
    cfgs = ["mc/MC_Bank_quick.cfg"] if tier == "quick" else ["mc/MC_Bank_quick.cfg", "mc/MC_Bank_thorough.cfg"]
    for cfg in cfgs:
        mc_and_replay(ev, "mc/MC_Bank.tla", cfg, "bank", 3000, ["Mint", "Send", "Burn", "Settle"],
                      emitting=["Mint", "Send", "Burn"])
    ev.exhaustive = True
    n, ln = (20, 150) if tier == "quick" else (300, 400)
    drive_and_validate(ev, "bank", n, ln, "trace/Trace_Bank.tla", "trace/Trace_Bank.cfg")
    # the bank INSIDE transactions (Chain): balances and the Supply query as seen by contracts while funds move
    # (attached funds, transfers by sub-messages, rolled-back transfers), and after the call
    mc_and_replay(ev, "mc/MC_Chain.tla", f"mc/MC_Chain_funds_{tier}.cfg", "chain", 3400, [], coverage=False,
                  env={"MTV_FOCUS": "reads.supply,post.supply,reads.bank,reads.bankf,post.bank", "MTV_ALWAYS": ""},
                  need_features=["funds"])
    if tier == "thorough":
        apalache_inductive(ev, "BankInd.tla", "Init", "IndInit", "IndInv")


def apalache_inductive(ev, module, base_init, step_init, inv, timeout=900):
    """design-level extra, unbounded in the integers: Apalache discharges `inv` as an inductive invariant of `module`
    (Init => inv at length 0; inv /\\ Next => inv' at length 1). A refutation is an error of the specification (exit 2),
    not of the code; a timeout is recorded and does not fail the check (the TLC stages decide the property)."""
    out = os.path.join(OUT, f"{ev.pid}-apalache")
    d = os.path.join(ROOT, "spec", "apalache")
    res = {}
    for name, init, length in (("base", base_init, 0), ("step", step_init, 1)):
        t = time.time()
        try:
            p = sh(["apalache-mc", "check", f"--init={init}", f"--inv={inv}", f"--length={length}", f"--out-dir={out}", module], cwd=d, timeout=timeout)
        except ToolError:
            res[name] = "not completed (timeout)"
            continue
        finally:
            subprocess.run(["rm", "-rf", out])
        txt = p.stdout + p.stderr
        if "The outcome is: NoError" in txt:
            res[name] = f"proved in {time.time() - t:.0f}s"
        elif "The outcome is: Error" in txt:
            raise ToolError(f"Apalache refutes {inv} of {module} ({name} case): the specification is wrong\n" + txt[-1500:])
        else:
            res[name] = "not completed (tool error)"
    ev.runs.append({"stage": f"Apalache: {inv} of {module} as an inductive invariant (amounts unbounded)", **res})


# ---- properties decided on the Chain specification -------------------------------------------
CHAIN = {
    "C01": dict(cfgs=["atomic"], focus="ok,raw,post,respcount,panic", always="ok.swallowed",
                need=["err", "ok", "two_or_more_invocations", "failing_contract", "sudo", "instantiate"],
                what="every entry point (execute, execute_multi of 1-3 messages, the Executor helpers, sudo bank mint, sudo wasm via "
                     "sudo and wasm_sudo) x message trees in which every node may fail and no failure is absorbed (reply_on in "
                     "{never, success}) x one earlier transaction of history; compared: Ok/Err, one response per message, the whole "
                     "observable state after the call, byte-identical raw storage after Err"),
    "C02": dict(cfgs=["tree", "stake"], focus="reads,ok,raw,post,panic", always="ok",
                need=["absorbed_failure_with_rolled_back_invocations", "reply_on_error", "reply_on_success", "failing_contract"],
                what="trees of sub-messages A->B->C with fan-out 2 at the root, all four reply_on modes on every edge, every node "
                     "(contract body, reply handler, bank transfer, instantiation) failing or not; every node writes a distinct token; "
                     "compared: what every later invocation can read (balances, registry, all contract storages), Ok/Err, state after"),
    "C03": dict(cfgs=["tree", "reply"], focus="seq,reply,replyev,replydata",
                need=["reply_on_error", "reply_on_success", "two_or_more_invocations"],
                what="the C02 trees plus a configuration varying id (0, 1, u64::MAX), payload (empty, text, 0x00 0xFF) and what the "
                     "child returns; compared: the exact sequence of entry-point invocations (extra/missing/misplaced replies) and "
                     "id, payload and Ok/Err carried by each Reply"),
    "C04": dict(cfgs=["events", "eventsE", "reply"], thorough_also_quick=["events"], focus="events,data,replyev,replydata,respcount",
                need=["ok", "reply_on_success", "instantiate", "migrate", "sudo"],
                what="attributes (none/one/two incl. empty value), custom events (none, without and with attributes, two) and data "
                     "(absent, present-empty, present) at every node, every reply_on mode, entry kinds execute/instantiate/migrate/"
                     "sudo/reply, bank transfers; compared: the exact event list and data bytes of every response and inside every Reply"),
    "C05": dict(cfgs=["funds"], focus="info,reads.bankf,reads.bank,ok,seq,post.bank,panic",
                need=["funds", "err", "instantiate", "sudo", "migrate"],
                what="call chains user->A->B->A, contracts calling themselves, instantiation with funds; funds none / one / two "
                     "denominations / exactly owned / more than owned; block changed by set_block / update_block before the call; "
                     "compared: sender, own address, block, funds told, balances visible to the callee, no invocation on overdraw"),
    "C08": dict(cfgs=["private", "privcase", "percode"], focus="reads.cs,post.cs,views,reads.bank,reads.reg,post.bank,post.reg,ok,raw,names,seq",
                need=["two_or_more_invocations", "ok"],
                what="three contracts (two from the same code) writing/removing keys that are instantiated with adversarial bytes "
                     "(other modules' and contracts' raw prefixes), nested and top-level, two transactions; compared: every "
                     "contract's storage as read by itself, by raw query, by dump_wasm_raw and by contract_storage, at every "
                     "invocation and after the call"),
    "C10": dict(cfgs=["tree", "private", "stake"], focus="reads,pure,views",
                need=["absorbed_failure_with_rolled_back_invocations", "reply_on_error"],
                what="the battery of bank / wasm raw / contract-info queries issued by the scripted contract at every entry-point "
                     "invocation of the C02 trees (in particular after a caught failure), and the same queries through App after "
                     "the call, twice, with the raw storage compared before and after"),
    "C11": dict(cfgs=["registry", "percode"], focus="codes,names,val,ok,post.reg,reads.reg,flavour,panic,seq",
                need=["instantiate", "err", "ok"],
                what="histories of store_code / store_code_with_id (ids 0, 1, 3, 5) / duplicate_code followed by classic and salted "
                     "instantiations (top-level and from a contract, failing and rolled back) with two creators, labels incl. empty; "
                     "compared: returned ids, CodeInfo of every id, address binding (functional and injective), ContractInfo, "
                     "which code serves each call"),
    "C12": dict(cfgs=["admin"], focus="ok,post.reg,flavour,post.cs,reads.reg,seq",
                need=["migrate", "err", "ok"],
                what="Migrate / UpdateAdmin / ClearAdmin sent by the admin, a former admin, strangers and contracts (as sub-messages, "
                     "incl. a contract migrating itself) on contracts with and without admin, sequences of up to 3; compared: "
                     "Ok/Err, code id and admin afterwards, storage kept, which code serves the next call"),
    "C13": dict(cfgs=["strings"], thorough_also_quick=["strings"], focus="ok,events,raw,post,seq,panic",
                need=["err", "ok", "migrate", "sudo", "instantiate"],
                what="every string of up to 2 (thorough: 3) characters over the classes ASCII space, tab, Unicode space, underscore, "
                     "1-byte and 2-byte letter as response attribute key, event attribute key and event type, at execute / "
                     "instantiate / migrate / sudo / reply and inside a sub-message under every reply_on; compared: Ok/Err, the "
                     "emitted events (strings unchanged), state after"),
    "C17": dict(cfgs=["routeacc", "routemix", "routefail", "stockacc", "stockmix", "stockfail", "stake"], focus="rlog,qroute,ok,panic,raw,post", always="qroute,ok",
                need=["module_called", "ok", "err"],
                what="every message kind x origin (top-level, sub-message) x module configuration (all accepting, mixed, all "
                     "failing) x position (first / after a state change) x reply_on; compared: which module was called with which "
                     "sender, Ok/Err, rollback"),
}


TRACE_FOCUS = {
    "C01": ["result", "state", "panic"], "C02": ["invocation.reads", "result", "state"],
    "C03": ["invocation.seq", "invocation.reply"], "C04": ["responses", "invocation.reply"],
    "C05": ["invocation.info", "invocation.reads"], "C08": ["invocation.reads", "state", "views"],
    "C10": ["invocation.reads", "views"], "C17": ["modules"],
    "C11": ["result", "state", "invocation.info"], "C12": ["result", "state", "invocation.info"],
    "C13": ["result", "responses", "state"],
    "C14": ["result", "state", "invocation.reads", "panic", "modules"], "C15": ["result", "state", "invocation.reads", "panic"],
    "C16": ["result", "state", "invocation.reads", "panic"],
}


def chain_trace_stage(ev, runs, calls, stake=False):
    """impl -> spec for the Chain layer: random larger programs executed on the real App, re-run by TLC.
    stake=True: the App holds the real staking / distribution keepers and users and contracts also send staking messages"""
    pid = ev.pid
    layer, tcfg, sfx = ("chain-stake", "trace/Trace_Chain_stake.cfg", "s") if stake else ("chain", "trace/Trace_Chain.cfg", "")
    tr = os.path.join(OUT, f"{pid}-{layer}-drive.ndjson")
    rep = run_mtv(["drive", layer, str(runs), str(calls), tr], tag=f"{pid}-{layer}-drive")
    # split at run borders so that one rejected run does not hide the others
    lines = open(tr).read().splitlines()
    starts = [i for i, l in enumerate(lines) if l.startswith('{"ev":"reset"')] + [len(lines)]
    nchunks = min(8, len(starts) - 1)
    per = (len(starts) - 1 + nchunks - 1) // nchunks
    results = []
    import threading
    def work(k):
        try:
            if k * per >= len(starts) - 1:
                return
            a, b = starts[k * per], starts[min((k + 1) * per, len(starts) - 1)]
            if a >= b:
                return
            part = f"{tr}.{k}"
            with open(part, "w") as f:
                f.write("\n".join(lines[a:b]) + "\n")
            results.append(validate_trace("trace/Trace_Chain.tla", tcfg, part, f"{pid}-ctrace{sfx}-{k}", 600) + (part,))
        except ToolError as e:
            results.append(e)
        except Exception as e:      # a worker must never die silently
            results.append(ToolError(f"trace validation worker {k}: {e!r}"))
    ts = [threading.Thread(target=work, args=(k,)) for k in range(nchunks)]
    [t.start() for t in ts]
    [t.join() for t in ts]
    for r in results:
        if isinstance(r, Exception):
            raise r
    rejected, other = 0, {}
    for ok, res, part in results:
        if ok:
            os.remove(part)
            continue
        m = re.search(r'MISMATCH line",\s*(\d+),\s*<<\s*"([a-z.]+)"', res.log.replace("\n", " "))
        cat = m.group(2) if m else "?"
        if cat in TRACE_FOCUS.get(pid, []):
            rejected += 1
            keep = os.path.join(VIOL, f"{pid}-chaintrace-{os.path.basename(part)}")
            os.replace(part, keep)
            ev.violations.append((keep, {"trace_rejected_at_line": m.group(1) if m else "?", "first_difference": cat}))
        else:
            other[cat] = other.get(cat, 0) + 1
            os.remove(part)
    ev.traces += rep["runs"]
    ev.evaluations += rep["events"]
    ev.states += sum(r[1].distinct for r in results)
    ev.transitions += sum(r[1].generated for r in results)
    ev.runs.append({"stage": "chain drive + trace validation (random programs up to 11 invocations" + (", with real staking / distribution)" if stake else ")"), "runs": rep["runs"],
                    "calls": rep["events"], "chunks": len(results), "rejected_in_focus": rejected,
                    "rejected_out_of_focus": other})
    if os.path.exists(tr):
        os.remove(tr)


def monitor_stage(ev):
    """the repository's own test-suite as validated traces: built with the `verif` hooks, every App entry point
    logs storage digests; TLC checks the frame conditions of spec/Monitor.tla on every event"""
    d = os.path.join(OUT, f"{ev.pid}-monitor")
    subprocess.run(["rm", "-rf", d])
    os.makedirs(d)
    p = sh(["cargo", "test", "--offline", "--all-features"], cwd=REPO, timeout=1500,
           env={"CW_MT_VERIF_TRACE": d, "CARGO_NET_OFFLINE": "true"})
    files = sorted(glob.glob(os.path.join(d, "*.ndjson")))
    if not files:
        raise ToolError("the monitored test-suite produced no trace:\n" + p.stdout[-1500:] + p.stderr[-1500:])
    tr = os.path.join(OUT, f"{ev.pid}-monitor.ndjson")
    n = 0
    kinds = {}
    with open(tr, "w") as f:
        for fn in files:
            f.write('{"ev":"reset","kind":"","ok":true,"pre":"","post":""}\n')
            for line in open(fn):
                e = json.loads(line)
                if ev.pid == "C01" and e["ev"] != "tx":
                    continue
                if ev.pid == "C10" and e["ev"] != "query":
                    continue
                if ev.pid == "C03" and e["ev"] not in ("sub", "reply"):
                    continue
                f.write(line)
                n += 1
                k = f'{e["kind"]}:{"ok" if e["ok"] else "err"}'
                kinds[k] = kinds.get(k, 0) + 1
    ok, res = validate_trace("Monitor.tla", "trace/Monitor.cfg", tr, f"{ev.pid}-monitor", 600)
    ev.runs.append({"stage": "repository test-suite under the monitor hooks (spec/Monitor.tla)", "test_threads_with_events": len(files),
                    "events": n, "by_kind": kinds, "accepted": ok})
    ev.traces += len(files)
    ev.evaluations += n
    if not ok:
        keep = os.path.join(VIOL, f"{ev.pid}-monitor.ndjson")
        os.replace(tr, keep)
        ev.violations.append((keep, {"monitor": [l for l in res.log.splitlines() if "MISMATCH" in l][:2]}))
    else:
        os.remove(tr)
    subprocess.run(["rm", "-rf", d])


def check_chain(tier, ev):
    pid = ev.pid
    c = CHAIN[pid]
    ev.rule = ("TLC enumerates, lazily in invocation order, every program of the menu: " + c["what"] +
               ". Every completed call is replayed on a real App with scripted contracts; a script counts against this "
               "property iff the FIRST observable that differs from the specification belongs to the property's focus (" +
               c["focus"] + ")" + (", or any mismatch of category " + c["always"] + " occurs" if c.get("always") else "") +
               ". Non-trivial = at least two contract invocations, a failing node, or a failing call "
               "(distinct programs counted).")
    ev.assumptions += ["contracts are scripted (arbitrary effects, queries and failures at every point, not arbitrary Rust)",
                       "bounded: Fuel contract invocations per transaction, MaxTx calls per history, menus as stated",
                       "error texts, gas and msg_responses are not compared"]
    for name in c["cfgs"]:
        cfg = f"mc/MC_Chain_{name}_{tier}.cfg"
        mc_and_replay(ev, "mc/MC_Chain.tla", cfg, "chain", 3400, [], coverage=False,
                      env={"MTV_FOCUS": c["focus"], "MTV_ALWAYS": c.get("always", "")},
                      need_features=c["need"] if name == c["cfgs"][0] else ())
        if tier == "thorough" and name in c.get("thorough_also_quick", ()):
            # the thorough menu varies one node at a time over a larger alphabet; the quick menu's full product is kept
            mc_and_replay(ev, "mc/MC_Chain.tla", f"mc/MC_Chain_{name}_quick.cfg", "chain", 3400, [], coverage=False,
                          env={"MTV_FOCUS": c["focus"], "MTV_ALWAYS": c.get("always", "")})
    ev.exhaustive = True
    if pid in TRACE_FOCUS:
        chain_trace_stage(ev, 40 if tier == "quick" else 400, 25)
        if "stake" in c["cfgs"]:
            chain_trace_stage(ev, 20 if tier == "quick" else 200, 25, stake=True)
    if pid in ("C01", "C03", "C10"):
        monitor_stage(ev)


# ---- staking ------------------------------------------------------------------------------------
STAKING = {
    "C14": dict(quick=["quick", "quick4", "overlap", "dust", "unbond0"], thorough=["quick", "thorough", "overlap", "dust", "rewards_deep", "unbond0"],
                focus="panic,ok.delegate,ok.undelegate,ok.redelegate,ok.advance,ok.set_withdraw,bal.delegate,bal.undelegate,"
                      "bal.redelegate,bal.advance,bal.set_withdraw,stake.delegate,stake.undelegate,stake.redelegate,"
                      "stake.advance,stake.withdraw,stake.set_withdraw",
                need=["undelegate", "slash", "pending_unbonding", "failing_op", "redelegate"]),
    "C15": dict(quick=["rewards", "quick", "waddr"], thorough=["rewards", "rewards_deep", "thorough", "waddr"],
                focus="ok.withdraw,reward,bal.withdraw,panic.withdraw",
                need=["withdraw", "nonzero_reward_shown", "slash"]),
    "C16": dict(quick=["drift", "quick4", "quick", "unbond0"], thorough=["drift", "thorough", "dust", "unbond0"],
                focus="ok.slash,stake.slash,bal.slash,bal.advance.slash,panic.slash,reward.slash",
                need=["slash", "pending_unbonding", "undelegate"]),
}


def sim_and_replay(ev, module, cfg, layer, num, depth, timeout=1500, env=None):
    """deep random behaviours from TLC's simulation mode (the configuration prints each completed behaviour), replayed"""
    name = os.path.basename(cfg)[:-4]
    res, rep = run_tlc(module, cfg, timeout, f"{ev.pid}-{name}", workers=8, coverage=False, simulate=num, depth=depth,
                       pipe_to=[MTV, "replay", layer, "-"], env=env, expect_ok=False)
    if res.violated:
        spec_violation(ev, name, res)
    ev.runs.append({"stage": name + " (tlc -simulate)", "behaviours_replayed": rep.get("scripts"), "depth": depth,
                    "mismatches": rep.get("mismatch_count", 0), "extra": rep.get("extra", {})})
    ev.traces += rep.get("scripts", 0)
    ev.evaluations += rep.get("checks", 0)
    ev.nontrivial += rep.get("distinct_nontrivial", 0)
    for m in rep.get("mismatches", []):
        ev.violations.append((m["path"], m["what"]))
    if rep.get("scripts", 0) == 0:
        raise ToolError(f"simulation {name} produced no behaviour:\n" + res.log[-1500:])


def check_staking(tier, ev):
    c = STAKING[ev.pid]
    ev.rule = ("TLC enumerates every history (up to MaxOps operations) of delegate / undelegate / redelegate / withdraw / "
               "set-withdraw-address / slash / advance-time (incl. zero amounts, foreign denomination, unknown validator, "
               "fractions above one where the configuration is 'rich') over 1-2 delegators and 1-2 validators with commissions "
               "0 and 50 %; every (operation, resulting state) is replayed on a real App with StakeKeeper and DistributionKeeper; "
               "after EVERY operation Ok/Err/panic, every balance incl. the staking pool, every delegation (Delegation and "
               "AllDelegations queries) and every pending reward (query and get_rewards) are compared with the specification; "
               "first-divergence attribution to: " + c["focus"] + ". Non-trivial = the history contains a successful "
               "undelegation or slash (distinct histories counted).")
    ev.assumptions += ["time advances on the grid YEAR/100 with apr 1000 % and commissions 0 / 50 %, where the code's 18-digit "
                       "fixed-point arithmetic is exact (a slash is explored only when the slashed shares are exact at scale 1e-4)",
                       "after a slash the statement fixes whole-token results only up to dropped sub-token remainders: a stake y "
                       "with floor((1-p)x) <= y <= exact value is accepted and ends the comparison of that history",
                       "spec -> impl direction only (recorded staking traces would need TLC to reproduce 18-digit floors)"]
    first = True
    for name in c[tier]:
        cfg = f"mc/MC_Staking_{name}.cfg"
        must = ["Delegate", "Undelegate", "Advance", "Settle"] + ([] if name == "waddr" else ["Slash"])   # (waddr: withdraw addresses, no slashing)
        mc_and_replay(ev, "mc/MC_Staking.tla", cfg, "staking", 3400, must,
                      emitting=["Delegate", "Undelegate", "Slash", "Advance"],
                      env={"MTV_FOCUS": c["focus"]}, need_features=c["need"] if first else ())
        first = False
    # deep random histories (20 operations) from TLC's simulation mode
    sim_and_replay(ev, "mc/MC_Staking.tla", "mc/MC_Staking_sim.cfg", "staking", 60 if tier == "quick" else 1500, 45,
                   env={"MTV_FOCUS": c["focus"]})
    # staking in composition (Chain): the same keepers driven by users AND contracts, as sub-messages that are
    # committed or rolled back, with payouts at block updates and rewards minted through the router
    if ev.pid in ("C14", "C15", "C16"):
        mc_and_replay(ev, "mc/MC_Chain.tla", f"mc/MC_Chain_stake_{tier}.cfg", "chain", 3400, [], coverage=False,
                      env={"MTV_FOCUS": "post.sk,post.unbonding,post.bank,reads.sk,reads.bank,ok,panic,rlog,views", "MTV_ALWAYS": ""},
                      need_features=["staking_message", "pending_unbonding_after", "nonzero_reward_visible", "payout_at_block_update",
                                     "staking_message_from_contract_ok", "slash_composed", "slash_with_pending_unbonding_composed"])
        # impl -> spec: random mixed histories (contracts, bank, staking, block updates) on the real keepers, validated by TLC
        chain_trace_stage(ev, 30 if tier == "quick" else 300, 25, stake=True)
    # design-level sanity: the two behaviours of the code before its repair are rejected by TLC
    for name, expect in (("dust_prefix", "StakersConsistent"), ("drift_prefix", "SlashKeepsWhole")):
        res, _ = run_tlc("mc/MC_Staking.tla", f"mc/MC_Staking_{name}.cfg", 900, f"{ev.pid}-{name}", coverage=False, expect_ok=False)
        if not res.violated:
            raise ToolError(f"vacuity: the pre-repair transcription {name} is not rejected by TLC")
        ev.runs.append({"stage": f"MC_Staking_{name} (sanity: pre-repair behaviour rejected)", "violated": res.violated})
    ev.exhaustive = True


CHECKS = {"C06": check_C06, "C07": check_C07, "C09": check_C09, "C18": check_C18, "C19": check_C19, "C20": check_C20}
for _p in STAKING:
    CHECKS[_p] = check_staking
for _p in CHAIN:
    CHECKS[_p] = check_chain

REPLAY_LAYER = {"C06": "overlay", "C07": "prefixed", "C09": "bank", "C19": "twin", "C20": "builder"}
for _p in CHAIN:
    REPLAY_LAYER[_p] = "chain"
for _p in STAKING:
    REPLAY_LAYER[_p] = "staking"
TRACE_SPEC = {"C06": ("trace/Trace_Overlay.tla", "trace/Trace_Overlay.cfg"),
              "C07": ("trace/Trace_Prefixed.tla", "trace/Trace_Prefixed.cfg"),
              "C09": ("trace/Trace_Bank.tla", "trace/Trace_Bank.cfg"),
              "C18": ("trace/Trace_Bech32.tla", "trace/Trace_Bech32.cfg")}
MONITOR_SPEC = ("Monitor.tla", "trace/Monitor.cfg")
for _p in ("C01", "C02", "C03", "C04", "C05", "C08", "C10", "C11", "C12", "C13", "C17"):
    TRACE_SPEC[_p] = ("trace/Trace_Chain.tla", "trace/Trace_Chain.cfg")


def main():
    if len(sys.argv) < 2:
        print(__doc__)
        sys.exit(2)
    cmd = sys.argv[1]
    try:
        if cmd == "setup":
            build_harness()
            mods = sorted(glob.glob(os.path.join(SPEC, "*.tla")) + glob.glob(os.path.join(SPEC, "mc", "*.tla")) +
                          glob.glob(os.path.join(SPEC, "trace", "*.tla")))
            for m in mods:
                p = sh(["tla-sany", m], cwd=SPEC, timeout=120)
                if p.returncode != 0 or "Semantic errors" in p.stdout or "*** Errors" in p.stdout:
                    raise ToolError(f"tla-sany rejects {m}:\n{p.stdout[-1500:]}")
            log(f"[setup] {len(mods)} modules parsed")
            sys.exit(0)
        if cmd == "replay":
            pid, path = sys.argv[2], sys.argv[3]
            build_harness()
            if path.endswith(".ndjson") and pid in TRACE_SPEC:
                spec = MONITOR_SPEC if "monitor" in os.path.basename(path) else TRACE_SPEC[pid]
                ok, res = validate_trace(spec[0], spec[1], path, "replay")
                print(res.log[-1500:])
                sys.exit(0 if ok else 1)
            if path.endswith(".log"):
                print(open(path).read()[-4000:])
                sys.exit(1)
            rec = json.load(open(path))
            layer = rec.get("layer") or REPLAY_LAYER[pid]
            p = subprocess.run([MTV, "replay", layer, path], env=dict(os.environ, MTV_VIOL_DIR=os.path.join(OUT, "replay")))
            sys.exit(p.returncode)
        if cmd == "selftest":
            import selftest
            sys.exit(selftest.main())
        pid = cmd
        tier = sys.argv[2] if len(sys.argv) > 2 else os.environ.get("VERIF_TIER", "quick")
        if pid not in CHECKS:
            raise ToolError(f"no check registered for {pid}")
        os.makedirs(VIOL, exist_ok=True)
        for f in glob.glob(os.path.join(VIOL, pid + "-*")):
            os.remove(f)
        build_harness()
        ev = Evidence(pid, tier)
        CHECKS[pid](tier, ev)
        conclude(ev)
    except ToolError as e:
        log("TOOL-ERROR:", e)
        sys.exit(2)


if __name__ == "__main__":
    main()
