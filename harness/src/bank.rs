//! C09 — the bank ledger through App: `BankSudo::Mint`, `BankMsg::Send` (execute and
//! `send_tokens`), `BankMsg::Burn`; queries `Balance`, `AllBalances`, `Supply`.
//!
//! `replay`: TLC-generated histories (spec/Bank.tla); every operation's Ok/Err and, after the
//! last one, all three query kinds for every account and denomination are compared with TLC's
//! state. Model amounts are scaled by a per-script unit up to the 128-bit range.
//! `drive`: random long histories recorded for TLC (spec/trace/Trace_Bank.tla).

use crate::common::*;
use cosmwasm_std::{coin, Addr, BankMsg, Coin, Uint128};
use cw_multi_test::{App, BankKeeper, BankSudo, Executor, SudoMsg};
use rand::rngs::StdRng;
use rand::{Rng, SeedableRng};
use serde_json::{json, Value};
use std::collections::BTreeMap;
use std::panic::{catch_unwind, AssertUnwindSafe};

pub fn units(cap: u128) -> Vec<u128> {
    vec![1, 1_000_000, 1_000_000_000_000_000_000, u128::MAX / cap.max(1)]
}

fn coins_of(v: &Value, unit: u128) -> Vec<Coin> {
    v.as_array()
        .unwrap()
        .iter()
        .map(|c| coin(c[1].as_u64().unwrap() as u128 * unit, denom_name(c[0].as_str().unwrap())))
        .collect()
}

/// model denominations -> real names (not in the same lexical order as the model names)
fn denom_name(d: &str) -> String {
    match d {
        "d1" => "uzzz".to_string(),
        "d2" => "ibc/27394FB092D2ECCD56123C74F36E4C1F926001CEADA9CA97EA622B25F41E5EB2".to_string(),
        other => format!("den{other}"),
    }
}

pub struct BankWorld {
    pub app: App,
    pub accs: BTreeMap<String, Addr>,
    pub alt: u64,
}

impl BankWorld {
    pub fn new(alt: u64) -> Self {
        BankWorld { app: App::default(), accs: BTreeMap::new(), alt }
    }
    pub fn addr(&mut self, name: &str) -> Addr {
        if let Some(a) = self.accs.get(name) {
            return a.clone();
        }
        let a = self.app.api().addr_make(name);
        self.accs.insert(name.to_string(), a.clone());
        a
    }
    /// Ok(true) success, Ok(false) error, Err = panic
    pub fn apply(&mut self, op: &Value, unit: u128) -> Result<bool, String> {
        let (meta_denom, meta_tok) = (op["from"].as_str().unwrap().to_string(), op["to"].as_str().unwrap().to_string());
        let is_meta = op["a"] == "setmeta";
        let from = if is_meta { Addr::unchecked("") } else { self.addr(op["from"].as_str().unwrap()) };
        let to = if is_meta { Addr::unchecked("") } else { self.addr(op["to"].as_str().unwrap()) };
        let coins = coins_of(&op["coins"], unit);
        let a = op["a"].as_str().unwrap().to_string();
        self.alt += 1;
        let alt = self.alt;
        let app = &mut self.app;
        catch_unwind(AssertUnwindSafe(move || match a.as_str() {
            "mint" => app
                .sudo(SudoMsg::Bank(BankSudo::Mint { to_address: to.to_string(), amount: coins }))
                .is_ok(),
            "send" => {
                if alt % 2 == 0 {
                    app.send_tokens(from, to, &coins).is_ok()
                } else {
                    app.execute(from, BankMsg::Send { to_address: to.to_string(), amount: coins }.into())
                        .is_ok()
                }
            }
            "burn" => app.execute(from, BankMsg::Burn { amount: coins }.into()).is_ok(),
            "init" => {
                let mut ok = false;
                app.init_modules(|router, _, storage| {
                    ok = router.bank.init_balance(storage, &to, coins.clone()).is_ok();
                });
                ok
            }
            "setmeta" => {
                // (metadata is kept directly in the storage handed to set_denom_metadata, and the queries read it from
                // the chain's root storage: the root storage it is)
                BankKeeper::new().set_denom_metadata(app.storage_mut(), denom_name(&meta_denom), meta_of(&meta_tok)).is_ok()
            }
            other => tool_error(&format!("unknown bank op {other}")),
        }))
        .map_err(|_| "panic".to_string())
    }

    /// all three query kinds; returns (balances per account as map, supply map) + inconsistencies
    pub fn observe(
        &mut self,
        accounts: &[String],
        denoms: &[String],
        found: &mut Vec<String>,
    ) -> (BTreeMap<String, BTreeMap<String, u128>>, BTreeMap<String, u128>) {
        let mut bal = BTreeMap::new();
        for a in accounts {
            let addr = self.addr(a);
            let mut m = BTreeMap::new();
            #[allow(deprecated)]
            let all = self.app.wrap().query_all_balances(&addr).unwrap_or_else(|e| {
                found.push(format!("AllBalances({a}) failed: {e}"));
                vec![]
            });
            let mut allm: BTreeMap<String, u128> = BTreeMap::new();
            for c in &all {
                if c.amount.is_zero() {
                    found.push(format!("AllBalances({a}) lists a zero coin {}", c.denom));
                }
                if allm.insert(c.denom.clone(), c.amount.u128()).is_some() {
                    found.push(format!("AllBalances({a}) lists {} twice", c.denom));
                }
            }
            for d in denoms {
                let dn = denom_name(d);
                let one = self
                    .app
                    .wrap()
                    .query_balance(&addr, &dn)
                    .map(|c| {
                        if c.denom != dn {
                            found.push(format!("Balance({a},{d}) answered for denom {}", c.denom));
                        }
                        c.amount.u128()
                    })
                    .unwrap_or_else(|e| {
                        found.push(format!("Balance({a},{d}) failed: {e}"));
                        0
                    });
                let from_all = allm.get(&dn).copied().unwrap_or(0);
                if one != from_all {
                    found.push(format!("Balance({a},{d}) = {one} but AllBalances says {from_all}"));
                }
                m.insert(d.clone(), one);
            }
            for k in allm.keys() {
                if !denoms.iter().any(|d| &denom_name(d) == k) {
                    found.push(format!("AllBalances({a}) lists an unknown denom {k}"));
                }
            }
            bal.insert(a.clone(), m);
        }
        let mut sup = BTreeMap::new();
        for d in denoms {
            let s = self
                .app
                .wrap()
                .query_supply(denom_name(d))
                .map(|c| c.amount.u128())
                .unwrap_or_else(|e| {
                    found.push(format!("Supply({d}) failed: {e}"));
                    0
                });
            let total: u128 = bal.values().map(|m: &BTreeMap<String, u128>| m[d]).fold(0u128, |x, y| x.wrapping_add(y));
            if s != total {
                found.push(format!("Supply({d}) = {s} but the balances of all accounts add up to {total}"));
            }
            sup.insert(d.clone(), s);
        }
        (bal, sup)
    }
}

/// the metadata stored for a token of the specification ("" = nothing stored = the default answer)
fn meta_of(tok: &str) -> cosmwasm_std::DenomMetadata {
    cosmwasm_std::DenomMetadata {
        description: format!("description of {tok}"),
        denom_units: vec![cosmwasm_std::DenomUnit { denom: tok.to_string(), exponent: 6, aliases: vec![format!("alias-{tok}")] }],
        base: tok.to_string(),
        display: tok.to_uppercase(),
        name: tok.to_string(),
        symbol: tok.to_uppercase(),
        uri: String::new(),
        uri_hash: String::new(),
    }
}

impl BankWorld {
    /// the DenomMetadata answer per denomination as a token ("" = default answer, "?" = anything else), checked against
    /// AllDenomMetadata (exactly the denominations with stored metadata, in ascending order)
    pub fn observe_meta(&mut self, denoms: &[String], found: &mut Vec<String>) -> BTreeMap<String, String> {
        let mut out = BTreeMap::new();
        let mut stored: Vec<cosmwasm_std::DenomMetadata> = vec![];
        let mut sorted: Vec<&String> = denoms.iter().collect();
        sorted.sort_by_key(|d| denom_name(d));
        for d in sorted {
            let m = self.app.wrap().query_denom_metadata(denom_name(d)).unwrap_or_else(|e| {
                found.push(format!("DenomMetadata({d}) failed: {e}"));
                cosmwasm_std::DenomMetadata::default()
            });
            let tok = if m == cosmwasm_std::DenomMetadata::default() {
                String::new()
            } else if m == meta_of(&m.name) {
                stored.push(m.clone());
                m.name.clone()
            } else {
                "?".to_string()
            };
            out.insert(d.clone(), tok);
        }
        let all = self.app.wrap().query_all_denom_metadata(cosmwasm_std::PageRequest { key: None, limit: 100, reverse: false }).map(|r| r.metadata).unwrap_or_else(|e| {
            found.push(format!("AllDenomMetadata failed: {e}"));
            vec![]
        });
        if all != stored {
            found.push(format!("AllDenomMetadata lists {} entries, the single queries show {} stored", all.len(), stored.len()));
        }
        out
    }
}

pub fn run_script(script: &Value, unit: u128, alt: u64) -> (Vec<String>, u64) {
    let mut found = vec![];
    let mut checks = 0;
    let mut w = BankWorld::new(alt);
    for (i, op) in script["ops"].as_array().unwrap().iter().enumerate() {
        checks += 1;
        match w.apply(op, unit) {
            Ok(ok) => {
                if ok != op["ok"].as_bool().unwrap() {
                    found.push(format!(
                        "operation {} {} returned {}, specification says {}",
                        i + 1,
                        op,
                        if ok { "Ok" } else { "Err" },
                        if op["ok"].as_bool().unwrap() { "Ok" } else { "Err" }
                    ));
                }
            }
            Err(_) => found.push(format!("operation {} {} panicked", i + 1, op)),
        }
    }
    let accounts: Vec<String> =
        script["bal"].as_array().unwrap().iter().map(|e| e[0].as_str().unwrap().to_string()).collect();
    let denoms: Vec<String> =
        script["supply"].as_array().unwrap().iter().map(|e| e[0].as_str().unwrap().to_string()).collect();
    let (bal, sup) = w.observe(&accounts, &denoms, &mut found);
    for e in script["bal"].as_array().unwrap() {
        let a = e[0].as_str().unwrap();
        for dv in e[1].as_array().unwrap() {
            let d = dv[0].as_str().unwrap();
            let want = dv[1].as_u64().unwrap() as u128 * unit;
            checks += 1;
            if bal[a][d] != want {
                found.push(format!("balance of {a} in {d} is {} units, specification says {}",
                    Uint128::new(bal[a][d]), Uint128::new(want)));
            }
        }
    }
    if let Some(ms) = script["meta"].as_array() {
        let got = w.observe_meta(&denoms, &mut found);
        for dv in ms {
            let d = dv[0].as_str().unwrap();
            checks += 1;
            if got.get(d).map(|s| s.as_str()) != dv[1].as_str() {
                found.push(format!("metadata of {d} is {:?}, specification says {}", got.get(d), dv[1]));
            }
        }
    }
    for dv in script["supply"].as_array().unwrap() {
        let d = dv[0].as_str().unwrap();
        let want = dv[1].as_u64().unwrap() as u128 * unit;
        checks += 1;
        if sup[d] != want {
            found.push(format!("supply of {d} is {}, specification says {}", sup[d], want));
        }
    }
    (found, checks)
}

pub fn replay(path: &str) -> ! {
    let mut rep = Report::new("bank");
    let seed = seed();
    for script in records(path) {
        rep.scripts += 1;
        let cap = script["cap"].as_u64().unwrap_or(8) as u128;
        let us = units(cap);
        let unit = script
            .get("unit")
            .and_then(|u| u.as_str())
            .and_then(|u| u.parse::<u128>().ok())
            .unwrap_or(us[((rep.scripts + seed) % us.len() as u64) as usize]);
        let alt = script.get("alt").and_then(|a| a.as_u64()).unwrap_or(rep.scripts + seed);
        let (found, checks) = catch_unwind(AssertUnwindSafe(|| run_script(&script, unit, alt)))
            .unwrap_or_else(|_| (vec!["the simulator panicked while being queried (overflow?)".to_string()], 1));
        rep.checks += checks;
        // non-trivial: the last operation fails, or moves repeated denominations / zero coins
        let ops = script["ops"].as_array().unwrap();
        if let Some(l) = ops.last() {
            let coins = l["coins"].as_array().unwrap();
            let has_zero = coins.iter().any(|c| c[1] == 0);
            let repeated = coins.len() >= 2 && coins.iter().any(|c| coins.iter().filter(|x| x[0] == c[0]).count() > 1);
            if l["ok"] == false || has_zero || repeated || l["from"] == l["to"] {
                rep.nontrivial_hash(&script["ops"]);
            }
        }
        if !found.is_empty() {
            let mut s = script.clone();
            s["unit"] = json!(unit.to_string());
            s["alt"] = json!(alt);
            rep.mismatch(&s, json!(found.iter().take(6).collect::<Vec<_>>()));
        }
        rep.sample(&json!({"ops": script["ops"], "unit": unit.to_string()}));
    }
    rep.finish()
}

/// random histories: `n` runs of `len` operations over 5 accounts and 3 denominations
pub fn drive(n: usize, len: usize, out: &str) -> ! {
    use std::io::Write;
    let mut f = std::io::BufWriter::new(
        std::fs::File::create(out).unwrap_or_else(|e| tool_error(&format!("{out}: {e}"))),
    );
    let mut rng = StdRng::seed_from_u64(seed());
    let accounts: Vec<String> = (1..=5).map(|i| format!("a{i}")).collect();
    let denoms: Vec<String> = vec!["d1".into(), "d2".into(), "d3".into()];
    let mut events = 0u64;
    for run in 0..n {
        // amounts below 2^31 in the trace (TLC integers); the real execution is scaled by `unit`
        let unit = units(1 << 24)[run % 4];
        let mut w = BankWorld::new(rng.gen());
        writeln!(f, "{}", json!({"ev":"reset","a":"reset","from":"","to":"","coins":[],"ok":"true","bal":[],"supply":[],"meta":[],"incons":[]})).unwrap();
        events += 1;
        let mut minted: u64 = 0;
        for _ in 0..len {
            let c = rng.gen_range(0..100);
            let a = if c < 25 { "mint" } else if c < 72 { "send" } else if c < 88 { "burn" } else if c < 93 { "init" } else { "setmeta" };
            if a == "setmeta" {
                let mtok = ["m1", "m2", "m3"][rng.gen_range(0..3)];
                let op = json!({"a": a, "from": denoms[rng.gen_range(0..3)], "to": mtok, "coins": []});
                let res = w.apply(&op, unit);
                let mut incons = vec![];
                let (bal, sup) = w.observe(&accounts, &denoms, &mut incons);
                let meta = w.observe_meta(&denoms, &mut incons);
                let balj: Vec<Value> = accounts
                    .iter()
                    .map(|acc| json!([acc, denoms.iter().map(|d| json!([d, bal[acc][d] / unit, bal[acc][d] % unit])).collect::<Vec<_>>()]))
                    .collect();
                let supj: Vec<Value> = denoms.iter().map(|d| json!([d, sup[d] / unit, sup[d] % unit])).collect();
                let metaj: Vec<Value> = denoms.iter().map(|d| json!([d, meta[d]])).collect();
                writeln!(f, "{}", json!({"ev":"op","a":a,"from":op["from"],"to":op["to"],"coins":[],
                    "ok": match res { Ok(true) => "true", Ok(false) => "false", Err(_) => "panic" },"bal":balj,"supply":supj,"meta":metaj,"incons":incons})).unwrap();
                events += 1;
                continue;
            }
            let from = accounts[rng.gen_range(0..5)].clone();
            let to = if a == "send" { accounts[rng.gen_range(0..5)].clone() } else { from.clone() };
            let ncoins = rng.gen_range(0..4);
            let coins: Vec<Value> = (0..ncoins)
                .map(|_| {
                    let amt: u64 = match rng.gen_range(0..10) {
                        0 | 1 => 0,
                        2..=6 => rng.gen_range(1..20),
                        _ => rng.gen_range(1..2000),
                    };
                    json!([denoms[rng.gen_range(0..3)], amt])
                })
                .collect();
            if a == "mint" || a == "init" {
                let s: u64 = coins.iter().map(|c| c[1].as_u64().unwrap()).sum();
                if minted + s > (1 << 22) {
                    continue;
                }
                minted += s;
            }
            let op = json!({"a":a,"from":from,"to":to,"coins":coins});
            let res = w.apply(&op, unit);
            let mut incons = vec![];
            let (bal, sup) = w.observe(&accounts, &denoms, &mut incons);
            let okv = match res {
                Ok(b) => json!(if b { "true" } else { "false" }),
                Err(_) => json!("panic"),
            };
            let balj: Vec<Value> = accounts
                .iter()
                .map(|acc| json!([acc, denoms.iter().map(|d| json!([d, bal[acc][d] / unit, bal[acc][d] % unit])).collect::<Vec<_>>()]))
                .collect();
            let supj: Vec<Value> = denoms.iter().map(|d| json!([d, sup[d] / unit, sup[d] % unit])).collect();
            let meta = w.observe_meta(&denoms, &mut incons);
            let metaj: Vec<Value> = denoms.iter().map(|d| json!([d, meta[d]])).collect();
            writeln!(f, "{}", json!({"ev":"op","a":a,"from":op["from"],"to":op["to"],"coins":op["coins"],
                "ok":okv,"bal":balj,"supply":supj,"meta":metaj,"incons":incons})).unwrap();
            events += 1;
        }
    }
    f.flush().unwrap();
    println!("MTV-REPORT {}", json!({"layer":"bank","runs":n,"events":events,"mismatch_count":0}));
    std::process::exit(0)
}
