//! Shared plumbing: reading TLC-emitted scripts, reporting verdicts.

use serde_json::{json, Value};
use std::collections::BTreeSet;
use std::fs::File;
use std::io::{BufRead, BufReader, Write};

/// Iterates over the JSON records of an ndjson stream. A line may be a JSON object or a
/// TLA+/JSON *string literal* containing a JSON object (what `PrintT(ToJson(..))` prints);
/// every other line (TLC chatter) is skipped.
pub fn records(path: &str) -> Box<dyn Iterator<Item = Value>> {
    let rd: Box<dyn BufRead> = if path == "-" {
        Box::new(BufReader::with_capacity(1 << 20, std::io::stdin()))
    } else {
        Box::new(BufReader::with_capacity(
            1 << 20,
            File::open(path).unwrap_or_else(|e| tool_error(&format!("cannot open {path}: {e}"))),
        ))
    };
    // everything that is not a record (TLC's own output) is kept for the orchestrator
    let mut side: Option<std::io::BufWriter<File>> = std::env::var("MTV_TLC_LOG")
        .ok()
        .and_then(|p| File::create(p).ok())
        .map(std::io::BufWriter::new);
    Box::new(rd.lines().filter_map(move |l| {
        let l = l.ok()?;
        let t = l.trim();
        if !(t.starts_with("\"{") || t.starts_with('{')) {
            if let Some(f) = side.as_mut() {
                let _ = writeln!(f, "{}", l);
                let _ = f.flush();
            }
            return None;
        }
        if t.starts_with("\"{") {
            let inner: String = serde_json::from_str(t).ok()?;
            serde_json::from_str(&inner).ok()
        } else if t.starts_with('{') {
            serde_json::from_str(t).ok()
        } else {
            None
        }
    }))
}

pub fn tool_error(msg: &str) -> ! {
    eprintln!("TOOL-ERROR: {msg}");
    std::process::exit(2)
}

/// Collects the outcome of a replay / drive run and prints it as one JSON line.
pub struct Report {
    pub layer: String,
    pub scripts: u64,
    pub checks: u64,
    pub nontrivial: BTreeSet<u64>,
    pub mismatches: Vec<Value>,
    pub mismatch_count: u64,
    pub samples: Vec<Value>,
    pub extra: serde_json::Map<String, Value>,
    pub viol_dir: String,
    pub max_kept: usize,
}

impl Report {
    pub fn new(layer: &str) -> Self {
        let viol_dir =
            std::env::var("MTV_VIOL_DIR").unwrap_or_else(|_| "/verif/out/violations".to_string());
        Report {
            layer: layer.to_string(),
            scripts: 0,
            checks: 0,
            nontrivial: BTreeSet::new(),
            mismatches: vec![],
            mismatch_count: 0,
            samples: vec![],
            extra: serde_json::Map::new(),
            viol_dir,
            max_kept: 20,
        }
    }

    /// Record a script that contradicts the specification; `script` must be self-contained
    /// (replayable by `mtv replay <layer> <file>`).
    pub fn mismatch(&mut self, script: &Value, what: Value) {
        self.mismatch_count += 1;
        if self.mismatches.len() < self.max_kept {
            let _ = std::fs::create_dir_all(&self.viol_dir);
            let tag = std::env::var("MTV_TAG").unwrap_or_else(|_| self.layer.clone());
            let path = format!(
                "{}/{}-{}-{}.json",
                self.viol_dir,
                tag,
                std::process::id(),
                self.mismatches.len()
            );
            let mut rec = script.clone();
            if let Some(o) = rec.as_object_mut() {
                o.insert("mismatch".into(), what.clone());
                o.insert("layer".into(), json!(self.layer));
            }
            if let Ok(mut f) = File::create(&path) {
                let _ = writeln!(f, "{}", rec);
            }
            self.mismatches.push(json!({"path": path, "what": what}));
        }
    }

    pub fn sample(&mut self, v: &Value) {
        // keep the first, and a few spread-out later ones
        let n = self.scripts;
        if self.samples.len() < 3 && (n == 1 || n == 100 || n == 5000) {
            self.samples.push(v.clone());
        }
    }

    pub fn nontrivial_hash(&mut self, v: &Value) {
        use std::hash::{Hash, Hasher};
        let mut h = std::collections::hash_map::DefaultHasher::new();
        v.to_string().hash(&mut h);
        self.nontrivial.insert(h.finish());
    }

    pub fn finish(self) -> ! {
        let out = json!({
            "layer": self.layer,
            "scripts": self.scripts,
            "checks": self.checks,
            "distinct_nontrivial": self.nontrivial.len(),
            "mismatch_count": self.mismatch_count,
            "mismatches": self.mismatches,
            "samples": self.samples,
            "extra": self.extra,
        });
        println!("MTV-REPORT {}", out);
        std::process::exit(if self.mismatch_count > 0 { 1 } else { 0 })
    }
}

/// model byte string (JSON array of small ints) -> real bytes through an order-preserving alphabet
pub fn bytes_of(v: &Value, alpha: &[u8]) -> Vec<u8> {
    v.as_array()
        .unwrap_or_else(|| tool_error(&format!("expected byte array, got {v}")))
        .iter()
        .map(|x| {
            let i = x.as_i64().unwrap_or_else(|| tool_error("byte not int"));
            if alpha.is_empty() {
                i as u8
            } else {
                alpha[i as usize]
            }
        })
        .collect()
}

/// `[-1]` is the specification's "none"
pub fn is_none(v: &Value) -> bool {
    matches!(v.as_array(), Some(a) if a.len() == 1 && a[0].as_i64() == Some(-1))
        || v.as_str() == Some("none")
}

pub fn opt_bytes_of(v: &Value, alpha: &[u8]) -> Option<Vec<u8>> {
    if is_none(v) {
        None
    } else {
        Some(bytes_of(v, alpha))
    }
}

pub fn hex(b: &[u8]) -> String {
    b.iter().map(|x| format!("{x:02x}")).collect()
}

pub fn seed() -> u64 {
    std::env::var("VERIF_SEED")
        .ok()
        .and_then(|s| s.parse().ok())
        .unwrap_or(20261002)
}
