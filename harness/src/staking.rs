//! C14 / C15 / C16 — the real `StakeKeeper` and `DistributionKeeper` driven by histories that TLC
//! generated from spec/Staking.tla.  Time advances on a grid (YEAR/100 per unit, apr 1000 %,
//! commissions 0 and 50 %) on which the code's fixed-point arithmetic is exact, so every shown
//! delegation, reward and balance must equal the specification's value exactly.

use crate::common::*;
use cosmwasm_std::{coin, Addr, Decimal, DistributionMsg, StakingMsg, Validator};
use cw_multi_test::{App, AppBuilder, Executor, StakingInfo, StakingSudo, SudoMsg};
use serde_json::{json, Value};
use std::collections::BTreeMap;
use std::panic::{catch_unwind, AssertUnwindSafe};

const UNIT: u64 = 315_360; // YEAR / 100

/// sub-second parts given to successive block times: whole seconds stay on the grid (YEAR/100 per unit), the
/// nanosecond part jumps up and down (rewards are a function of whole seconds: a block time is not a multiple of a second)
const FRACTIONS: [u64; 7] = [100_000_000, 900_000_000, 0, 500_000_000, 999_999_999, 1, 879_305_533];

pub struct StWorld {
    /// number of block updates so far (selects the sub-second part), None = keep the sub-second part constant
    pub jitter: Option<usize>,
    pub advances: usize,
    pub app: App,
    pub accts: BTreeMap<String, Addr>,
}

fn denom(foreign: bool) -> &'static str {
    if foreign {
        "other"
    } else {
        "TOKEN"
    }
}

impl StWorld {
    pub fn new(script: &Value) -> Self {
        let unbond = script["unbond"].as_u64().unwrap_or(2);
        let initbal = script["initbal"].as_u64().unwrap_or(3) as u128;
        let comm: Vec<(String, u64)> = script["comm"]
            .as_array()
            .map(|a| a.iter().map(|c| (c[0].as_str().unwrap().to_string(), c[1].as_u64().unwrap())).collect())
            .unwrap_or_default();
        let dels: Vec<String> = script["obs"]["bal"]
            .as_array()
            .map(|a| a.iter().map(|b| b[0].as_str().unwrap().to_string()).filter(|n| n != "pool").collect())
            .unwrap_or_default();
        let mut accts = BTreeMap::new();
        let app = AppBuilder::new().build(|router, api, storage| {
            router
                .staking
                .setup(
                    storage,
                    // with varying sub-second parts the period is (unbond - 1) units + 1 s: the first block update at or
                    // after it is then the one `unbond` units later, whatever the sub-second parts of the two blocks are
                    StakingInfo { bonded_denom: "TOKEN".to_string(), unbonding_time: if unbond > 0 { (unbond - 1) * UNIT + 1 } else { 0 }, apr: Decimal::percent(1000) },
                )
                .unwrap();
            let block = cosmwasm_std::testing::mock_env().block;
            for (v, c) in &comm {
                let val = Validator::new(v.clone(), Decimal::percent(50 * c), Decimal::percent(100), Decimal::percent(1));
                router.staking.add_validator(api, storage, &block, val).unwrap();
            }
            for d in &dels {
                let a = api.addr_make(d);
                router.bank.init_balance(storage, &a, vec![coin(initbal, "TOKEN"), coin(1, "other")]).unwrap();
                accts.insert(d.clone(), a);
            }
        });
        StWorld { jitter: if unbond > 0 { Some(0) } else { None }, advances: 0, app, accts }
    }

    fn addr(&self, n: &str) -> Addr {
        self.accts.get(n).cloned().unwrap_or_else(|| Addr::unchecked(n))
    }

    /// Ok(true) / Ok(false) / Err(panic)
    pub fn apply(&mut self, op: &Value, split: Option<&mut dyn FnMut(&mut App, u64)>) -> Result<bool, String> {
        let a = op["a"].as_str().unwrap_or("").to_string();
        let d = self.addr(op["d"].as_str().unwrap_or(""));
        let v = op["v"].as_str().unwrap_or("").to_string();
        let v2 = op["v2"].as_str().unwrap_or("").to_string();
        let amt = op["amt"].as_u64().unwrap_or(0);
        let foreign = op["foreign"].as_bool().unwrap_or(false);
        let f = (op["f"][0].as_u64().unwrap_or(0), op["f"][1].as_u64().unwrap_or(1));
        let waddr = self.addr(op["v"].as_str().unwrap_or(""));
        let frac = match (a.as_str(), self.jitter.as_mut()) {
            ("advance", Some(n)) => {
                *n += 1;
                Some(FRACTIONS[(*n - 1) % FRACTIONS.len()])
            }
            _ => None,
        };
        self.advances += if a == "advance" { 1 } else { 0 };
        let via_set = self.advances % 2 == 0;
        let app = &mut self.app;
        catch_unwind(AssertUnwindSafe(move || match a.as_str() {
            "delegate" => app.execute(d, StakingMsg::Delegate { validator: v, amount: coin(amt as u128, denom(foreign)) }.into()).is_ok(),
            "undelegate" => app.execute(d, StakingMsg::Undelegate { validator: v, amount: coin(amt as u128, denom(foreign)) }.into()).is_ok(),
            "redelegate" => app
                .execute(d, StakingMsg::Redelegate { src_validator: v, dst_validator: v2, amount: coin(amt as u128, denom(foreign)) }.into())
                .is_ok(),
            "withdraw" => app.execute(d, DistributionMsg::WithdrawDelegatorReward { validator: v }.into()).is_ok(),
            "set_withdraw" => app.execute(d, DistributionMsg::SetWithdrawAddress { address: waddr.to_string() }.into()).is_ok(),
            "slash" => app
                .sudo(SudoMsg::Staking(StakingSudo::Slash { validator: v, percentage: Decimal::from_ratio(f.0 as u128, f.1 as u128) }))
                .is_ok(),
            "advance" => {
                match split {
                    Some(sp) => sp(app, amt),
                    None => {
                        let mut b = app.block_info();
                        b.time = match frac {
                            Some(f) => cosmwasm_std::Timestamp::from_nanos((b.time.seconds() + amt * UNIT) * 1_000_000_000 + f),
                            None => b.time.plus_seconds(amt * UNIT),
                        };
                        // the two ways of moving the clock are used in turn: update_block with a new height, and
                        // set_block with the SAME height (an unbonding matures with time, not with height)
                        if via_set {
                            app.set_block(b);
                        } else {
                            let t = b.time;
                            app.update_block(|bl| {
                                bl.time = t;
                                bl.height += 1;
                            });
                        }
                    }
                }
                true
            }
            other => tool_error(&format!("unknown staking op {other}")),
        }))
        .map_err(|_| "panic".to_string())
    }
}

/// compares what the public API shows with one specification observation.
/// `slash`: Some((p_num, p_den, previous stakes)) when the step just executed is a successful slash:
/// the statement only fixes the whole-token result up to dropped sub-token remainders, so a stake y
/// with floor((1-p)*x) <= y <= specification's value is accepted; `diverged` is set when such an
/// allowed difference occurs (the rest of the script is then not comparable).
fn compare_obs(
    w: &mut StWorld,
    obs: &Value,
    tag: &str,
    slash: Option<(u64, u64, &BTreeMap<(String, String), u128>)>,
    stakes_out: &mut BTreeMap<(String, String), u128>,
    diverged: &mut bool,
) -> Vec<String> {
    let mut f2 = vec![];
    let mut known_sum: u128 = 0;
    let mut pool_want = 0u128;
    for b in obs["bal"].as_array().unwrap() {
        let n = b[0].as_str().unwrap();
        let want = b[1].as_u64().unwrap() as u128;
        if n == "pool" {
            pool_want = want;
            continue;
        }
        let got = w.app.wrap().query_balance(w.addr(n), "TOKEN").map(|c| c.amount.u128()).unwrap_or(u128::MAX);
        known_sum += got;
        if got != want {
            f2.push(format!("bal.{tag}|balance of {n} is {got}, specification says {want}"));
        }
        let o = w.app.wrap().query_balance(w.addr(n), "other").map(|c| c.amount.u128()).unwrap_or(u128::MAX);
        if o != 1 {
            f2.push(format!("bal.{tag}|{n} holds {o} of the foreign denomination, specification says 1"));
        }
    }
    // the pool: whatever nobody else holds
    let supply = w.app.wrap().query_supply("TOKEN").map(|c| c.amount.u128()).unwrap_or(0);
    let pool_got = supply.saturating_sub(known_sum);
    if pool_got != pool_want {
        f2.push(format!("bal.{tag}|the staking pool holds {pool_got}, specification says {pool_want}"));
    }
    for row in obs["dels"].as_array().unwrap() {
        for e in row.as_array().unwrap() {
            let (d, v) = (e["d"].as_str().unwrap(), e["v"].as_str().unwrap());
            let want_stake = e["stake"].as_u64().unwrap() as u128;
            let want_reward = e["reward"].as_u64().unwrap() as u128;
            let del = w.app.wrap().query_delegation(w.addr(d), v);
            let (got_stake, shown_reward) = match &del {
                Ok(Some(fd)) => (fd.amount.amount.u128(), Some(fd.accumulated_rewards.iter().map(|c| c.amount.u128()).sum::<u128>())),
                Ok(None) => (0, None),
                Err(_) => (u128::MAX, None),
            };
            stakes_out.insert((d.to_string(), v.to_string()), got_stake);
            if got_stake != want_stake {
                let mut allowed = false;
                if let Some((pn, pd, prev)) = slash {
                    if let Some(x) = prev.get(&(d.to_string(), v.to_string())) {
                        let lo = x * (pd - pn) as u128 / pd as u128; // floor((1-p) * x)
                        if got_stake >= lo && got_stake <= want_stake && got_stake <= *x {
                            allowed = true;
                        }
                    }
                }
                if allowed {
                    *diverged = true;
                } else {
                    f2.push(format!("stake.{tag}|delegation of {d} to {v} is {got_stake}, specification says {want_stake}"));
                }
            }
            if *diverged {
                continue;
            }
            let block = w.app.block_info();
            let addr = w.addr(d);
            let gr = w
                .app
                .read_module(|router, _api, storage| router.staking.get_rewards(storage, &block, &addr, v))
                .ok()
                .flatten()
                .map(|c| c.amount.u128())
                .unwrap_or(0);
            if gr != want_reward {
                f2.push(format!("reward.{tag}|pending reward of {d} at {v} is {gr}, specification says {want_reward}"));
            }
            if let Some(sr) = shown_reward {
                if sr != want_reward {
                    f2.push(format!("reward.{tag}|delegation query shows reward {sr} for {d} at {v}, specification says {want_reward}"));
                }
            }
            let all = w.app.wrap().query_all_delegations(w.addr(d)).unwrap_or_default();
            let in_all = all.iter().find(|x| x.validator == v).map(|x| x.amount.amount.u128()).unwrap_or(0);
            if in_all != want_stake {
                f2.push(format!("stake.{tag}|AllDelegations lists {in_all} for {d} at {v}, specification says {want_stake}"));
            }
        }
    }
    f2
}

/// returns (mismatches, checks, diverged-in-an-allowed-way)
pub fn run_script(script: &Value) -> (Vec<String>, u64) {
    let mut found = vec![];
    let mut checks = 0u64;
    let mut w = StWorld::new(script);
    let ops = script["ops"].as_array().cloned().unwrap_or_default();
    let mut prev: BTreeMap<(String, String), u128> = BTreeMap::new();
    let mut slashed = false;
    for (i, op) in ops.iter().enumerate() {
        checks += 1;
        let kind = op["a"].as_str().unwrap_or("");
        let sfx = if slashed || kind == "slash" { ".slash" } else { "" };
        let want_ok = op["ok"].as_bool().unwrap_or(true);
        match w.apply(op, None) {
            Ok(ok) => {
                if ok != want_ok {
                    found.push(format!(
                        "ok.{kind}|operation {} {} returned {}, specification says {}",
                        i + 1,
                        json!({"a": op["a"], "d": op["d"], "v": op["v"], "amt": op["amt"], "f": op["f"]}),
                        if ok { "Ok" } else { "Err" },
                        if want_ok { "Ok" } else { "Err" }
                    ));
                    return (found, checks);
                }
            }
            Err(_) => {
                found.push(format!("panic.{kind}|operation {} {} panicked", i + 1, json!({"a": op["a"], "d": op["d"], "v": op["v"], "amt": op["amt"], "f": op["f"]})));
                return (found, checks);
            }
        }
        if kind == "slash" && want_ok {
            slashed = true;
        }
        let mut diverged = false;
        let mut stakes = BTreeMap::new();
        let tag = format!("{kind}{sfx}");
        let sl = if kind == "slash" && want_ok {
            Some((op["f"][0].as_u64().unwrap_or(0), op["f"][1].as_u64().unwrap_or(1), &prev))
        } else {
            None
        };
        let r = catch_unwind(AssertUnwindSafe(|| compare_obs(&mut w, &op["obs"], &tag, sl, &mut stakes, &mut diverged)));
        checks += 8;
        match r {
            Ok(f2) => found.extend(f2),
            Err(_) => found.push(format!("panic.query|a query panicked after operation {}", i + 1)),
        }
        if !found.is_empty() {
            return (found, checks);
        }
        if diverged {
            found.push("DIVERGED".to_string());
            return (found, checks);
        }
        prev = stakes;
    }
    (found, checks)
}

fn in_focus(msg: &str) -> bool {
    let focus = std::env::var("MTV_FOCUS").unwrap_or_default();
    if focus.is_empty() {
        return true;
    }
    let cat = msg.split('|').next().unwrap_or("");
    focus.split(',').any(|f| cat == f || cat.starts_with(&format!("{f}.")))
}

pub fn replay(path: &str) -> ! {
    let mut rep = Report::new("staking");
    let mut oof: BTreeMap<String, u64> = BTreeMap::new();
    let mut feats: BTreeMap<String, u64> = BTreeMap::new();
    for script in records(path) {
        rep.scripts += 1;
        let (found, checks) = catch_unwind(AssertUnwindSafe(|| run_script(&script)))
            .unwrap_or_else(|_| (vec!["panic.harness|panic while executing the script".to_string()], 1));
        rep.checks += checks;
        let found: Vec<String> = if found.first().map(|f| f == "DIVERGED").unwrap_or(false) {
            *feats.entry("allowed_divergence_after_slash (sub-token remainders)".to_string()).or_insert(0) += 1;
            vec![]
        } else {
            found
        };
        let found: Vec<String> = match found.first() {
            Some(first) if !in_focus(first) => {
                *oof.entry(first.split('|').next().unwrap_or("").to_string()).or_insert(0) += 1;
                vec![]
            }
            _ => found,
        };
        let ops = script["ops"].as_array().cloned().unwrap_or_default();
        let mut bump = |k: &str| *feats.entry(k.to_string()).or_insert(0) += 1;
        let _ = &script["obs"];
        if ops.iter().any(|o| o["a"] == "slash" && o["ok"] == true) { bump("slash") }
        if ops.iter().any(|o| o["a"] == "undelegate" && o["ok"] == true) { bump("undelegate") }
        if ops.iter().any(|o| o["a"] == "withdraw" && o["ok"] == true) { bump("withdraw") }
        if ops.iter().any(|o| o["a"] == "redelegate" && o["ok"] == true) { bump("redelegate") }
        if ops.iter().any(|o| o["ok"] == false) { bump("failing_op") }
        if script["obs"]["dels"].as_array().map(|r| r.iter().any(|row| row.as_array().unwrap().iter().any(|e| e["reward"].as_u64().unwrap_or(0) > 0))).unwrap_or(false) { bump("nonzero_reward_shown") }
        if script["obs"]["queue"].as_array().map(|q| !q.is_empty()).unwrap_or(false) { bump("pending_unbonding") }
        if ops.iter().any(|o| (o["a"] == "undelegate" || o["a"] == "slash") && o["ok"] == true) {
            rep.nontrivial_hash(&script["ops"]);
        }
        if !found.is_empty() {
            rep.mismatch(&script, json!(found.iter().take(6).collect::<Vec<_>>()));
        }
        let compact: Vec<Value> = ops.iter().map(|o| json!([o["a"], o["d"], o["v"], o["amt"], o["f"], o["ok"]])).collect();
        rep.sample(&json!({"ops": compact}));
    }
    for (k, v) in feats {
        rep.extra.insert(k, json!(v));
    }
    if !oof.is_empty() {
        rep.extra.insert("out_of_focus_first_differences".into(), json!(oof));
    }
    rep.finish()
}

// ---------------------------------------------------------------------------------------------
// C19 on the staking keepers: the same history on two fresh Apps, interleaved; everything the
// public API shows and the raw storage must be byte-identical at equal positions

fn st_transcript(w: &mut StWorld, res: &Result<bool, String>) -> Value {
    use cosmwasm_std::{Order, Storage};
    let dump: Vec<Value> = w
        .app
        .storage()
        .range(None, None, Order::Ascending)
        .map(|(k, v)| json!([hex(&k), hex(&v)]))
        .collect();
    let names: Vec<String> = w.accts.keys().cloned().collect();
    let bals: Vec<Value> = names
        .iter()
        .map(|n| {
            #[allow(deprecated)]
            let b = w.app.wrap().query_all_balances(w.addr(n)).unwrap_or_default();
            json!([n, b.iter().map(|c| format!("{}{}", c.amount, c.denom)).collect::<Vec<_>>()])
        })
        .collect();
    let dels: Vec<Value> = names
        .iter()
        .map(|n| {
            let d = w.app.wrap().query_all_delegations(w.addr(n)).unwrap_or_default();
            json!([n, d.iter().map(|x| format!("{}:{}", x.validator, x.amount)).collect::<Vec<_>>()])
        })
        .collect();
    json!({"res": format!("{:?}", res), "storage": dump, "balances": bals, "delegations": dels})
}

pub fn twin(path: &str) -> ! {
    use rand::rngs::StdRng;
    use rand::{Rng, SeedableRng};
    use std::hash::{Hash, Hasher};
    let mut rep = Report::new("twin-staking");
    let mut rng = StdRng::seed_from_u64(seed());
    let mut digest: u64 = 0; // order-independent: sum of per-script hashes
    for script in records(path) {
        rep.scripts += 1;
        let ops = script["ops"].as_array().cloned().unwrap_or_default();
        let r = catch_unwind(AssertUnwindSafe(|| {
            let mut f: Vec<String> = vec![];
            let mut wa = StWorld::new(&script);
            let mut wb = StWorld::new(&script);
            let (mut ta, mut tb): (Vec<Value>, Vec<Value>) = (vec![], vec![]);
            // a random interleaving of the two runs
            while ta.len() < ops.len() || tb.len() < ops.len() {
                let pick_a = if ta.len() >= ops.len() { false } else if tb.len() >= ops.len() { true } else { rng.gen_bool(0.5) };
                let (wx, tx) = if pick_a { (&mut wa, &mut ta) } else { (&mut wb, &mut tb) };
                let op = &ops[tx.len()];
                let res = wx.apply(op, None);
                let t = st_transcript(wx, &res);
                tx.push(t);
                let n = ta.len().min(tb.len());
                if n > 0 && ta[n - 1] != tb[n - 1] {
                    let (x, y) = (&ta[n - 1], &tb[n - 1]);
                    let field = ["res", "balances", "delegations", "storage"].iter().find(|fld| x[**fld] != y[**fld]).copied().unwrap_or("?");
                    f.push(format!("position {}: the two applications differ in {}: A = {} / B = {}", n, field,
                                   x[field].to_string().chars().take(400).collect::<String>(),
                                   y[field].to_string().chars().take(400).collect::<String>()));
                    break;
                }
            }
            (f, ta)
        }));
        let mut found = vec![];
        match r {
            Ok((f, ta)) => {
                found.extend(f);
                let mut h = std::collections::hash_map::DefaultHasher::new();
                json!(ta).to_string().hash(&mut h);
                digest = digest.wrapping_add(h.finish());
            }
            Err(_) => found.push("panic while stepping the two applications".to_string()),
        }
        rep.checks += 2 * ops.len() as u64;
        if ops.len() >= 2 {
            rep.nontrivial_hash(&json!(ops.iter().map(|o| json!([o["a"], o["d"], o["v"], o["amt"], o["f"]])).collect::<Vec<_>>()));
        }
        if !found.is_empty() {
            rep.mismatch(&script, json!(found));
        }
        let compact: Vec<Value> = ops.iter().map(|o| json!([o["a"], o["d"], o["v"], o["amt"], o["f"], o["ok"]])).collect();
        rep.sample(&json!({"ops": compact}));
    }
    rep.extra.insert("transcript_digest".into(), json!(format!("{:016x}", digest)));
    rep.finish()
}
