//! C20 — AppBuilder and ContractWrapper replayed from TLC-generated step sequences
//! (spec/Builder.tla).  Every slot is first normalised to a *tagged* harness type (tag 0), so that
//! the steps TLC chose can be applied in a run-time loop without changing the builder's type; the
//! value supplied by the k-th step carries tag k.  A fixed set of compile-time sequences
//! additionally starts from the library's real defaults.

use crate::common::*;
use cosmwasm_std::testing::{MockApi, MockStorage};
use cosmwasm_std::{
    to_json_binary, Addr, Api, BankMsg, BankQuery, Binary, BlockInfo, CanonicalAddr, Checksum, CosmosMsg,
    CustomMsg, CustomQuery, Deps, DepsMut, DistributionMsg, Empty, Env, GovMsg, IbcMsg, IbcQuery, MessageInfo,
    Order, Querier, RecoverPubkeyError, Record, Reply, Response, StakingMsg, StakingQuery, StdResult, Storage,
    SubMsgResponse, SubMsgResult, Timestamp, VerificationError, WasmMsg, WasmQuery,
};
use cw_multi_test::error::AnyResult;
use cw_multi_test::{
    App, AppBuilder, AppResponse, Bank, BankSudo, Contract, ContractData, ContractWrapper, CosmosRouter,
    Distribution, Executor, Gov, Ibc, Module, Staking, StakingSudo, Stargate, Wasm, WasmKeeper, WasmSudo,
};
use serde::de::DeserializeOwned;
use serde_json::{json, Value};
use std::cell::RefCell;
use std::marker::PhantomData;
use std::panic::{catch_unwind, AssertUnwindSafe};

thread_local! {
    /// (slot, tag) of every module instance that handled a message
    static SEEN: RefCell<Vec<(String, u64)>> = RefCell::new(vec![]);
    static INITS: RefCell<u64> = RefCell::new(0);
}
fn seen(slot: &str, tag: u64) {
    SEEN.with(|s| s.borrow_mut().push((slot.to_string(), tag)));
}

// ---- tagged components ----------------------------------------------------------------------
pub struct TApi {
    pub tag: u64,
    inner: MockApi,
}
impl Api for TApi {
    fn addr_validate(&self, human: &str) -> StdResult<Addr> {
        self.inner.addr_validate(human)
    }
    fn addr_canonicalize(&self, human: &str) -> StdResult<CanonicalAddr> {
        self.inner.addr_canonicalize(human)
    }
    fn addr_humanize(&self, canonical: &CanonicalAddr) -> StdResult<Addr> {
        self.inner.addr_humanize(canonical)
    }
    fn secp256k1_verify(&self, a: &[u8], b: &[u8], c: &[u8]) -> Result<bool, VerificationError> {
        self.inner.secp256k1_verify(a, b, c)
    }
    fn secp256k1_recover_pubkey(&self, a: &[u8], b: &[u8], c: u8) -> Result<Vec<u8>, RecoverPubkeyError> {
        self.inner.secp256k1_recover_pubkey(a, b, c)
    }
    fn ed25519_verify(&self, a: &[u8], b: &[u8], c: &[u8]) -> Result<bool, VerificationError> {
        self.inner.ed25519_verify(a, b, c)
    }
    fn ed25519_batch_verify(&self, a: &[&[u8]], b: &[&[u8]], c: &[&[u8]]) -> Result<bool, VerificationError> {
        self.inner.ed25519_batch_verify(a, b, c)
    }
    fn debug(&self, message: &str) {
        self.inner.debug(message)
    }
}

pub struct TStorage {
    pub tag: u64,
    inner: MockStorage,
}
impl Storage for TStorage {
    fn get(&self, key: &[u8]) -> Option<Vec<u8>> {
        self.inner.get(key)
    }
    fn range<'a>(&'a self, start: Option<&[u8]>, end: Option<&[u8]>, order: Order) -> Box<dyn Iterator<Item = Record> + 'a> {
        self.inner.range(start, end, order)
    }
    fn set(&mut self, key: &[u8], value: &[u8]) {
        self.inner.set(key, value)
    }
    fn remove(&mut self, key: &[u8]) {
        self.inner.remove(key)
    }
}

pub struct TMod<E, Q, S> {
    slot: &'static str,
    tag: u64,
    _p: PhantomData<(E, Q, S)>,
}
impl<E, Q, S> TMod<E, Q, S> {
    fn new(slot: &'static str, tag: u64) -> Self {
        TMod { slot, tag, _p: PhantomData }
    }
}
impl<E, Q, S> Module for TMod<E, Q, S> {
    type ExecT = E;
    type QueryT = Q;
    type SudoT = S;
    fn execute<ExecC, QueryC>(&self, _a: &dyn Api, _s: &mut dyn Storage, _r: &dyn CosmosRouter<ExecC = ExecC, QueryC = QueryC>, _b: &BlockInfo, _sender: Addr, _m: E) -> AnyResult<AppResponse>
    where
        ExecC: CustomMsg + DeserializeOwned + 'static,
        QueryC: CustomQuery + DeserializeOwned + 'static,
    {
        seen(self.slot, self.tag);
        Ok(AppResponse::default())
    }
    fn query(&self, _a: &dyn Api, _s: &dyn Storage, _q: &dyn Querier, _b: &BlockInfo, _r: Q) -> AnyResult<Binary> {
        seen(self.slot, self.tag);
        Ok(to_json_binary(&json!({}))?)
    }
    fn sudo<ExecC, QueryC>(&self, _a: &dyn Api, _s: &mut dyn Storage, _r: &dyn CosmosRouter<ExecC = ExecC, QueryC = QueryC>, _b: &BlockInfo, _m: S) -> AnyResult<AppResponse>
    where
        ExecC: CustomMsg + DeserializeOwned + 'static,
        QueryC: CustomQuery + DeserializeOwned + 'static,
    {
        seen(self.slot, self.tag);
        Ok(AppResponse::default())
    }
}
impl Bank for TMod<BankMsg, BankQuery, BankSudo> {}
impl Staking for TMod<StakingMsg, StakingQuery, StakingSudo> {}
impl Distribution for TMod<DistributionMsg, Empty, Empty> {}
impl Ibc for TMod<IbcMsg, IbcQuery, Empty> {}
impl Gov for TMod<GovMsg, Empty, Empty> {}

pub struct TStargate {
    tag: u64,
}
impl Stargate for TStargate {
    fn execute_any<ExecC, QueryC>(&self, _a: &dyn Api, _s: &mut dyn Storage, _r: &dyn CosmosRouter<ExecC = ExecC, QueryC = QueryC>, _b: &BlockInfo, _sender: Addr, _m: cosmwasm_std::AnyMsg) -> AnyResult<AppResponse>
    where
        ExecC: CustomMsg + DeserializeOwned + 'static,
        QueryC: CustomQuery + DeserializeOwned + 'static,
    {
        seen("stargate", self.tag);
        Ok(AppResponse::default())
    }
}

pub struct TWasm {
    tag: u64,
    inner: WasmKeeper<Empty, Empty>,
}
impl Wasm<Empty, Empty> for TWasm {
    fn execute(&self, _api: &dyn Api, _storage: &mut dyn Storage, _router: &dyn CosmosRouter<ExecC = Empty, QueryC = Empty>, _block: &BlockInfo, _sender: Addr, _msg: WasmMsg) -> AnyResult<AppResponse> {
        seen("wasm", self.tag);
        Ok(AppResponse::default())
    }
    fn query(&self, api: &dyn Api, storage: &dyn Storage, querier: &dyn Querier, block: &BlockInfo, request: WasmQuery) -> AnyResult<Binary> {
        self.inner.query(api, storage, querier, block, request)
    }
    fn sudo(&self, api: &dyn Api, storage: &mut dyn Storage, router: &dyn CosmosRouter<ExecC = Empty, QueryC = Empty>, block: &BlockInfo, msg: WasmSudo) -> AnyResult<AppResponse> {
        self.inner.sudo(api, storage, router, block, msg)
    }
    fn store_code(&mut self, creator: Addr, code: Box<dyn Contract<Empty, Empty>>) -> u64 {
        self.inner.store_code(creator, code)
    }
    fn store_code_with_id(&mut self, creator: Addr, code_id: u64, code: Box<dyn Contract<Empty, Empty>>) -> AnyResult<u64> {
        self.inner.store_code_with_id(creator, code_id, code)
    }
    fn duplicate_code(&mut self, code_id: u64) -> AnyResult<u64> {
        self.inner.duplicate_code(code_id)
    }
    fn contract_data(&self, storage: &dyn Storage, address: &Addr) -> AnyResult<ContractData> {
        self.inner.contract_data(storage, address)
    }
    fn dump_wasm_raw(&self, storage: &dyn Storage, address: &Addr) -> Vec<Record> {
        self.inner.dump_wasm_raw(storage, address)
    }
}

type TBank = TMod<BankMsg, BankQuery, BankSudo>;
type TCustom = TMod<Empty, Empty, Empty>;
type TStaking = TMod<StakingMsg, StakingQuery, StakingSudo>;
type TDistr = TMod<DistributionMsg, Empty, Empty>;
type TIbc = TMod<IbcMsg, IbcQuery, Empty>;
type TGov = TMod<GovMsg, Empty, Empty>;
type TBuilder = AppBuilder<TBank, TApi, TStorage, TCustom, TWasm, TStaking, TDistr, TIbc, TGov, TStargate>;
type TApp = App<TBank, TApi, TStorage, TCustom, TWasm, TStaking, TDistr, TIbc, TGov, TStargate>;

fn block_for(tag: u64) -> BlockInfo {
    BlockInfo { height: 1000 + tag, time: Timestamp::from_seconds(5000 + tag), chain_id: format!("chain-{tag}") }
}

/// the block supplied by step `tag` when the step is `step` (boundary values: height 0, time 0, empty chain id)
fn block_of_step(step: &str, tag: u64) -> BlockInfo {
    let mut b = block_for(tag);
    match step {
        "block_h0" => b.height = 0,
        "block_t0" => b.time = Timestamp::from_nanos(0),
        "block_c0" => b.chain_id = String::new(),
        _ => {}
    }
    b
}

fn storage_of_step(step: &str, tag: u64) -> TStorage {
    let mut inner = MockStorage::new();
    if step == "storage_data" {
        inner.set(b"supplied", &[tag as u8]);
        inner.set(b"", b"x");
    }
    TStorage { tag, inner }
}

fn normalised() -> TBuilder {
    AppBuilder::new()
        .with_api(TApi { tag: 0, inner: MockApi::default() })
        .with_block(block_for(0))
        .with_storage(TStorage { tag: 0, inner: MockStorage::new() })
        .with_bank(TBank::new("bank", 0))
        .with_wasm(TWasm { tag: 0, inner: WasmKeeper::new() })
        .with_custom(TCustom::new("custom", 0))
        .with_staking(TStaking::new("staking", 0))
        .with_distribution(TDistr::new("distribution", 0))
        .with_ibc(TIbc::new("ibc", 0))
        .with_gov(TGov::new("gov", 0))
        .with_stargate(TStargate { tag: 0 })
}

fn apply_step(b: TBuilder, slot: &str, tag: u64) -> TBuilder {
    match slot {
        "api" => b.with_api(TApi { tag, inner: MockApi::default() }),
        "block" | "block_h0" | "block_t0" | "block_c0" => b.with_block(block_of_step(slot, tag)),
        "storage" | "storage_data" => b.with_storage(storage_of_step(slot, tag)),
        "bank" => b.with_bank(TBank::new("bank", tag)),
        "wasm" => b.with_wasm(TWasm { tag, inner: WasmKeeper::new() }),
        "custom" => b.with_custom(TCustom::new("custom", tag)),
        "staking" => b.with_staking(TStaking::new("staking", tag)),
        "distribution" => b.with_distribution(TDistr::new("distribution", tag)),
        "ibc" => b.with_ibc(TIbc::new("ibc", tag)),
        "gov" => b.with_gov(TGov::new("gov", tag)),
        "stargate" => b.with_stargate(TStargate { tag }),
        other => tool_error(&format!("unknown builder slot {other}")),
    }
}

/// which tagged instance serves each slot of a built app
fn observe_app(app: &mut TApp, steps: &[String]) -> Vec<(String, u64)> {
    let mut out = vec![("api".to_string(), app.api().tag)];
    // storage: the supplied object with exactly the supplied contents (+ what the initialisation function wrote)
    let st = app.storage();
    let stag = st.tag;
    let supplied_ok = match steps.get((stag as usize).wrapping_sub(1)).map(|s| s.as_str()) {
        Some("storage_data") => st.get(b"supplied") == Some(vec![stag as u8]) && st.get(b"") == Some(b"x".to_vec()),
        _ => st.get(b"supplied").is_none() && st.get(b"").is_none(),
    };
    out.push(("storage".to_string(), if supplied_ok { stag } else { 9998 }));
    // block: exactly the BlockInfo some block step supplied (the last one, says the specification)
    let b = app.block_info();
    let from = (0..=steps.len() as u64).find(|k| {
        let step = if *k == 0 { "block" } else { steps[*k as usize - 1].as_str() };
        (*k == 0 || step.starts_with("block")) && block_of_step(step, *k) == b
    });
    out.push(("block".to_string(), from.unwrap_or(9999)));
    let sender = MockApi::default().addr_make("sender");
    let msgs: Vec<(&str, CosmosMsg<Empty>)> = vec![
        ("bank", BankMsg::Burn { amount: vec![] }.into()),
        ("wasm", WasmMsg::ClearAdmin { contract_addr: sender.to_string() }.into()),
        ("custom", CosmosMsg::Custom(Empty {})),
        ("staking", StakingMsg::Delegate { validator: "v".into(), amount: cosmwasm_std::coin(1, "x") }.into()),
        ("distribution", DistributionMsg::SetWithdrawAddress { address: sender.to_string() }.into()),
        ("ibc", IbcMsg::CloseChannel { channel_id: "c".into() }.into()),
        ("gov", GovMsg::Vote { proposal_id: 1, option: cosmwasm_std::VoteOption::Yes }.into()),
        ("stargate", CosmosMsg::Any(cosmwasm_std::AnyMsg { type_url: "/x".into(), value: Binary::default() })),
    ];
    for (slot, m) in msgs {
        SEEN.with(|s| s.borrow_mut().clear());
        let _ = app.execute(sender.clone(), m);
        let got = SEEN.with(|s| s.borrow().clone());
        match got.as_slice() {
            [(s, t)] if s == slot => out.push((slot.to_string(), *t)),
            other => out.push((slot.to_string(), 10_000 + other.len() as u64)),
        }
    }
    out
}

fn run_app(script: &Value) -> Vec<String> {
    let mut found = vec![];
    let mut b = normalised();
    for (i, s) in script["steps"].as_array().unwrap().iter().enumerate() {
        b = apply_step(b, s.as_str().unwrap(), i as u64 + 1);
    }
    INITS.with(|c| *c.borrow_mut() = 0);
    let want: std::collections::BTreeMap<String, u64> =
        script["slots"].as_array().unwrap().iter().map(|p| (p[0].as_str().unwrap().to_string(), p[1].as_u64().unwrap())).collect();
    let mut init_saw: Vec<(String, u64)> = vec![];
    let mut app = b.build(|router, api, storage| {
        INITS.with(|c| *c.borrow_mut() += 1);
        storage.set(b"init-marker", b"1");
        init_saw.push(("api".into(), api.tag));
        init_saw.push(("bank".into(), router.bank.tag));
        init_saw.push(("custom".into(), router.custom.tag));
        init_saw.push(("staking".into(), router.staking.tag));
        init_saw.push(("distribution".into(), router.distribution.tag));
        init_saw.push(("ibc".into(), router.ibc.tag));
        init_saw.push(("gov".into(), router.gov.tag));
        init_saw.push(("stargate".into(), router.stargate.tag));
    });
    let inits = INITS.with(|c| *c.borrow());
    if inits != script["inits"].as_u64().unwrap_or(1) {
        found.push(format!("the initialisation function ran {inits} times, specification says {}", script["inits"]));
    }
    if app.storage().get(b"init-marker").is_none() {
        found.push("the initialisation function did not run against the supplied storage".into());
    }
    for (slot, t) in init_saw {
        if want.get(&slot) != Some(&t) {
            found.push(format!("the initialisation function was given {slot} with tag {t}, specification says {:?}", want.get(&slot)));
        }
    }
    let steps: Vec<String> = script["steps"].as_array().unwrap().iter().map(|s| s.as_str().unwrap().to_string()).collect();
    for (slot, t) in observe_app(&mut app, &steps) {
        if want.get(&slot) != Some(&t) {
            found.push(format!("slot {slot} is served by the component tagged {t}, specification says {:?}", want.get(&slot)));
        }
    }
    found
}

// ---- ContractWrapper --------------------------------------------------------------------------
type E = anyhow::Error;
fn exec_fn(_d: DepsMut, _e: Env, _i: MessageInfo, _m: Empty) -> Result<Response, E> {
    Ok(Response::new().add_attribute("ep", "execute"))
}
fn inst_fn(_d: DepsMut, _e: Env, _i: MessageInfo, _m: Empty) -> Result<Response, E> {
    Ok(Response::new().add_attribute("ep", "instantiate"))
}
fn query_fn(_d: Deps, _e: Env, _m: Empty) -> Result<Binary, E> {
    Ok(Binary::from(b"q"))
}
macro_rules! tagged_fns {
    ($($n:literal),*) => {
        fn sudo_of(tag: u64) -> fn(DepsMut, Env, Empty) -> Result<Response, E> {
            match tag { $($n => { fn f(_d: DepsMut, _e: Env, _m: Empty) -> Result<Response, E> { Ok(Response::new().add_attribute("sudo", stringify!($n))) } f })* _ => unreachable!() }
        }
        fn migrate_of(tag: u64) -> fn(DepsMut, Env, Empty) -> Result<Response, E> {
            match tag { $($n => { fn f(_d: DepsMut, _e: Env, _m: Empty) -> Result<Response, E> { Ok(Response::new().add_attribute("migrate", stringify!($n))) } f })* _ => unreachable!() }
        }
        fn reply_of(tag: u64) -> fn(DepsMut, Env, Reply) -> Result<Response, E> {
            match tag { $($n => { fn f(_d: DepsMut, _e: Env, _m: Reply) -> Result<Response, E> { Ok(Response::new().add_attribute("reply", stringify!($n))) } f })* _ => unreachable!() }
        }
    };
}
tagged_fns!(1, 2, 3, 4, 5, 6, 7, 8);

fn checksum_of(tag: u64) -> Checksum {
    Checksum::generate(format!("checksum-{tag}").as_bytes())
}

fn tag_in(resp: &AnyResult<Response>, key: &str) -> u64 {
    match resp {
        Ok(r) => r.attributes.iter().find(|a| a.key == key).and_then(|a| a.value.parse().ok()).unwrap_or(9999),
        Err(_) => 0,
    }
}

fn run_wrapper(script: &Value) -> Vec<String> {
    let mut found = vec![];
    let mut w = ContractWrapper::new(exec_fn, inst_fn, query_fn);
    for (i, s) in script["steps"].as_array().unwrap().iter().enumerate() {
        let tag = i as u64 + 1;
        w = match s.as_str().unwrap() {
            "sudo" => w.with_sudo(sudo_of(tag)),
            "sudo_empty" => w.with_sudo_empty(sudo_of(tag)),
            "reply" => w.with_reply(reply_of(tag)),
            "reply_empty" => w.with_reply_empty(reply_of(tag)),
            "migrate" => w.with_migrate(migrate_of(tag)),
            "migrate_empty" => w.with_migrate_empty(migrate_of(tag)),
            "checksum" => w.with_checksum(checksum_of(tag)),
            other => tool_error(&format!("unknown wrapper step {other}")),
        };
    }
    let want: std::collections::BTreeMap<String, u64> =
        script["slots"].as_array().unwrap().iter().map(|p| (p[0].as_str().unwrap().to_string(), p[1].as_u64().unwrap())).collect();
    let c: &dyn Contract<Empty, Empty> = &w;
    let mut deps = cosmwasm_std::testing::mock_dependencies();
    let env = cosmwasm_std::testing::mock_env();
    let info = cosmwasm_std::testing::message_info(&Addr::unchecked("s"), &[]);
    // the mandatory entry points stay what they were
    if tag_in(&c.execute(deps.as_mut(), env.clone(), info.clone(), b"{}".to_vec()), "ep") != 9999 {
        found.push("execute entry point lost".into());
    }
    if c.instantiate(deps.as_mut(), env.clone(), info, b"{}".to_vec()).is_err() || c.query(deps.as_ref(), env.clone(), b"{}".to_vec()).is_err() {
        found.push("instantiate / query entry point lost".into());
    }
    let got_sudo = tag_in(&c.sudo(deps.as_mut(), env.clone(), b"{}".to_vec()), "sudo");
    let got_migrate = tag_in(&c.migrate(deps.as_mut(), env.clone(), b"{}".to_vec()), "migrate");
    #[allow(deprecated)]
    let reply = Reply { id: 1, payload: Binary::default(), gas_used: 0, result: SubMsgResult::Ok(SubMsgResponse { events: vec![], data: None, msg_responses: vec![] }) };
    let got_reply = tag_in(&c.reply(deps.as_mut(), env, reply), "reply");
    for (slot, got) in [("sudo", got_sudo), ("migrate", got_migrate), ("reply", got_reply)] {
        if want[slot] != got {
            found.push(format!("entry point {slot}: served by the function supplied in step {got} (0 = not implemented), specification says {}", want[slot]));
        }
    }
    let want_ck = if want["checksum"] == 0 { None } else { Some(checksum_of(want["checksum"])) };
    if c.checksum() != want_ck {
        found.push(format!("checksum() is {:?}, specification says the one supplied in step {} (0 = none)", c.checksum().map(|c| c.to_hex()), want["checksum"]));
    }
    // end to end: the chain keeps the supplied checksum for the stored code and for its copies
    if let Some(ck) = want_ck {
        let mut app = App::default();
        let id = app.store_code(Box::new(w));
        let copy = app.duplicate_code(id).unwrap_or(0);
        let copy2 = app.duplicate_code(copy).unwrap_or(0);
        for (what, i) in [("the stored code", id), ("its copy", copy), ("the copy of its copy", copy2)] {
            match app.wrap().query_wasm_code_info(i) {
                Ok(ci) if ci.checksum == ck => {}
                Ok(ci) => found.push(format!("code info of {what} shows checksum {}, supplied was {}", ci.checksum.to_hex(), ck.to_hex())),
                Err(_) => found.push(format!("code info of {what} cannot be queried")),
            }
        }
    }
    found
}

// ---- sequences that start from the library's real defaults -------------------------------------
fn real_defaults() -> Vec<String> {
    use cw_multi_test::{no_init, BankKeeper};
    let mut found = vec![];
    macro_rules! check {
        ($name:expr, $app:expr, $api:expr, $stor:expr, $height:expr) => {{
            let mut app = $app;
            if app.block_info().height != $height {
                found.push(format!("{}: block height {}", $name, app.block_info().height));
            }
            let s = MockApi::default().addr_make("s");
            // default bank: a working BankKeeper; default custom/ibc/gov/stargate: failing modules
            let ok_mint = app.sudo(cw_multi_test::SudoMsg::Bank(BankSudo::Mint { to_address: s.to_string(), amount: cosmwasm_std::coins(1, "x") })).is_ok();
            if !ok_mint || app.wrap().query_balance(&s, "x").map(|c| c.amount.u128()).unwrap_or(0) != 1 {
                found.push(format!("{}: default bank does not work", $name));
            }
            if app.execute(s.clone(), IbcMsg::CloseChannel { channel_id: "c".into() }.into()).is_ok() {
                found.push(format!("{}: default ibc module accepted a message", $name));
            }
            let _: Option<u64> = $api(&app);
            let _: Option<u64> = $stor(&app);
        }};
    }
    let b1 = block_for(1);
    check!("block,api", AppBuilder::new().with_block(b1.clone()).with_api(TApi { tag: 7, inner: MockApi::default() }).build(no_init), |a: &App<BankKeeper, TApi>| Some(a.api().tag), |_a| None, 1001);
    check!("api,block", AppBuilder::new().with_api(TApi { tag: 7, inner: MockApi::default() }).with_block(b1.clone()).build(no_init), |a: &App<BankKeeper, TApi>| Some(a.api().tag), |_a| None, 1001);
    check!("storage,block", AppBuilder::new().with_storage(TStorage { tag: 3, inner: MockStorage::new() }).with_block(b1.clone()).build(no_init), |_a| None, |a: &App<BankKeeper, MockApi, TStorage>| Some(a.storage().tag), 1001);
    check!("block,storage", AppBuilder::new().with_block(b1.clone()).with_storage(TStorage { tag: 3, inner: MockStorage::new() }).build(no_init), |_a| None, |a: &App<BankKeeper, MockApi, TStorage>| Some(a.storage().tag), 1001);
    check!("none", AppBuilder::new().build(no_init), |_a| None, |_a| None, 12345);
    // the library's own recording custom module (CachingCustomHandler): it sees exactly the custom messages and
    // queries that were sent, in order - also those of a transaction that is rolled back afterwards (its cache is
    // not part of the chain state)
    {
        use cw_multi_test::custom_handler::CachingCustomHandler;
        #[derive(Clone, Debug, Default, PartialEq, serde::Serialize, serde::Deserialize, schemars::JsonSchema)]
        struct M(String);
        impl cosmwasm_std::CustomMsg for M {}
        impl cosmwasm_std::CustomQuery for M {}
        let handler = CachingCustomHandler::<M, M>::new();
        let state = handler.state();
        let mut app = cw_multi_test::BasicAppBuilder::<M, M>::new_custom().with_custom(handler).build(no_init);
        let s = MockApi::default().addr_make("s");
        let r1 = app.execute(s.clone(), CosmosMsg::Custom(M("one".into())));
        let r2 = app.execute_multi(s.clone(), vec![CosmosMsg::Custom(M("two".into())), BankMsg::Send { to_address: s.to_string(), amount: cosmwasm_std::coins(5, "nothing") }.into()]);
        let _ = app.wrap().query::<cosmwasm_std::Empty>(&cosmwasm_std::QueryRequest::Custom(M("q".into())));
        let execs: Vec<M> = state.execs().to_vec();
        let queries: Vec<M> = state.queries().to_vec();
        if r1.is_err() || r2.is_ok() || execs != vec![M("one".into()), M("two".into())] || queries != vec![M("q".into())] {
            found.push(format!("CachingCustomHandler: results ({}, {}), recorded messages {:?}, queries {:?}", r1.is_ok(), r2.is_ok(), execs, queries));
        }
    }
    // a supplied bank serves everything the DEFAULT staking and distribution keepers do with coins: the transfer of a
    // delegation, the payout of an unbonding at a block update, the mint of a withdrawn reward
    {
        use cosmwasm_std::{coin, Decimal, Validator};
        let mut app = AppBuilder::new().with_bank(TBank::new("bank", 9)).build(|router, api, storage| {
            router.staking.setup(storage, cw_multi_test::StakingInfo { bonded_denom: "tok".into(), unbonding_time: 10, apr: Decimal::percent(100) }).unwrap();
            let block = cosmwasm_std::testing::mock_env().block;
            router.staking.add_validator(api, storage, &block, Validator::new("val".into(), Decimal::zero(), Decimal::one(), Decimal::one())).unwrap();
        });
        let d = MockApi::default().addr_make("delegator");
        let steps: Vec<(&str, Box<dyn Fn(&mut App<TBank>) -> bool>)> = vec![
            ("delegate", Box::new(|a: &mut App<TBank>| a.execute(MockApi::default().addr_make("delegator"), StakingMsg::Delegate { validator: "val".into(), amount: coin(100, "tok") }.into()).is_ok())),
            ("undelegate + block update", Box::new(|a: &mut App<TBank>| {
                let ok = a.execute(MockApi::default().addr_make("delegator"), StakingMsg::Undelegate { validator: "val".into(), amount: coin(40, "tok") }.into()).is_ok();
                SEEN.with(|s| s.borrow_mut().clear());
                a.update_block(|b| b.time = b.time.plus_seconds(40_000_000));
                ok
            })),
            ("withdraw rewards", Box::new(|a: &mut App<TBank>| a.execute(MockApi::default().addr_make("delegator"), DistributionMsg::WithdrawDelegatorReward { validator: "val".into() }.into()).is_ok())),
        ];
        let _ = d;
        for (what, f) in steps {
            SEEN.with(|s| s.borrow_mut().clear());
            let ok = f(&mut app);
            let got = SEEN.with(|s| s.borrow().clone());
            if !ok || !got.iter().any(|(slot, tag)| slot == "bank" && *tag == 9) {
                found.push(format!("supplied bank + default staking/distribution: {what}: ok = {ok}, modules that were called: {:?} (the supplied bank, tag 9, must be among them)", got));
            }
        }
    }
    check!("block_h0", AppBuilder::new().with_block(block_of_step("block_h0", 1)).build(no_init), |_a| None, |_a| None, 0);
    check!("block,block_h0", AppBuilder::new().with_block(b1.clone()).with_block(block_of_step("block_h0", 2)).build(no_init), |_a| None, |_a| None, 0);
    found
}

pub fn replay(path: &str) -> ! {
    let mut rep = Report::new("builder");
    let d = catch_unwind(AssertUnwindSafe(real_defaults)).unwrap_or_else(|_| vec!["panic in the real-defaults sequences".into()]);
    if !d.is_empty() {
        rep.mismatch(&json!({"kind": "defaults"}), json!(d));
    }
    for script in records(path) {
        rep.scripts += 1;
        let found = catch_unwind(AssertUnwindSafe(|| {
            if script["kind"] == "app" {
                run_app(&script)
            } else {
                run_wrapper(&script)
            }
        }))
        .unwrap_or_else(|_| vec!["panic while applying the steps".to_string()]);
        rep.checks += 12;
        let steps = script["steps"].as_array().map(|a| a.len()).unwrap_or(0);
        if steps >= 2 {
            rep.nontrivial_hash(&json!([script["kind"], script["steps"]]));
        }
        if !found.is_empty() {
            rep.mismatch(&script, json!(found.iter().take(6).collect::<Vec<_>>()));
        }
        rep.sample(&json!({"kind": script["kind"], "steps": script["steps"]}));
    }
    rep.finish()
}
