//! C07 — namespaced storage views, through `App::prefixed_storage(_mut)`,
//! `App::prefixed_multilevel_storage(_mut)` and `App::storage(_mut)`.
//!
//! `replay`: TLC-generated operation sequences (spec/Prefixed.tla, B = 256: raw keys are real
//! bytes); after the operations the raw dump of the root store and the read battery of every view
//! are compared with TLC's answers.

use crate::common::*;
use cosmwasm_std::{Order, Storage};
use cw_multi_test::App;
use serde_json::{json, Value};
use std::panic::{catch_unwind, AssertUnwindSafe};

fn segs_of(p: &Value) -> Vec<Vec<u8>> {
    p.as_array().unwrap().iter().map(|s| bytes_of(s, &[])).collect()
}

/// read-only view for a path; `alt` selects the single-level API where it applies
fn view<'a>(app: &'a App, segs: &[Vec<u8>], alt: bool) -> Box<dyn Storage + 'a> {
    if segs.len() == 1 && alt {
        app.prefixed_storage(&segs[0])
    } else {
        let refs: Vec<&[u8]> = segs.iter().map(|s| s.as_slice()).collect();
        app.prefixed_multilevel_storage(&refs)
    }
}

fn view_mut<'a>(app: &'a mut App, segs: &[Vec<u8>], alt: bool) -> Box<dyn Storage + 'a> {
    if segs.len() == 1 && alt {
        app.prefixed_storage_mut(&segs[0])
    } else {
        let refs: Vec<&[u8]> = segs.iter().map(|s| s.as_slice()).collect();
        app.prefixed_multilevel_storage_mut(&refs)
    }
}

fn dump(app: &App) -> Vec<(Vec<u8>, Vec<u8>)> {
    app.storage().range(None, None, Order::Ascending).collect()
}

fn pairs(v: &Value) -> Vec<(Vec<u8>, Vec<u8>)> {
    v.as_array()
        .unwrap()
        .iter()
        .map(|p| (bytes_of(&p[0], &[]), bytes_of(&p[1], &[])))
        .collect()
}

fn hx(v: &[(Vec<u8>, Vec<u8>)]) -> Vec<(String, String)> {
    v.iter().map(|(k, v)| (hex(k), hex(v))).collect()
}

pub fn run_script(script: &Value, alt: bool) -> (Vec<String>, u64) {
    let mut found = vec![];
    let mut checks = 0u64;
    let mut app = App::default();
    for op in script["ops"].as_array().unwrap() {
        let segs = segs_of(&op["p"]);
        let k = bytes_of(&op["k"], &[]);
        let a = op["a"].as_str().unwrap();
        let before = dump(&app);
        match a {
            "set" | "remove" => {
                let r = catch_unwind(AssertUnwindSafe(|| {
                    if segs.is_empty() && alt {
                        // the empty path is the root store itself
                        if a == "set" {
                            app.storage_mut().set(&k, &bytes_of(&op["v"], &[]));
                        } else {
                            app.storage_mut().remove(&k);
                        }
                    } else {
                        let mut v = view_mut(&mut app, &segs, alt);
                        if a == "set" {
                            v.set(&k, &bytes_of(&op["v"], &[]));
                        } else {
                            v.remove(&k);
                        }
                    }
                }));
                if r.is_err() {
                    found.push(format!("{a} through view {:?} panicked", op["p"]));
                }
            }
            "ro_set" | "ro_remove" => {
                let r = catch_unwind(AssertUnwindSafe(|| {
                    let mut v = view(&app, &segs, alt);
                    if a == "ro_set" {
                        v.set(&k, b"x");
                    } else {
                        v.remove(&k);
                    }
                }));
                checks += 1;
                if r.is_ok() {
                    found.push(format!("write through read-only view {:?} was not rejected", op["p"]));
                }
                if dump(&app) != before {
                    found.push("write through read-only view changed the store".into());
                }
            }
            other => tool_error(&format!("unknown prefixed op {other}")),
        }
    }
    // raw content: exactly what the specification says (one-to-one correspondence, frame)
    let want_raw = pairs(&script["raw"]);
    let got_raw = dump(&app);
    checks += 1;
    if got_raw != want_raw {
        found.push(format!(
            "raw store = {:?}, specification says {:?}",
            hx(&got_raw),
            hx(&want_raw)
        ));
    }
    let keys: Vec<Vec<u8>> = script["keys"].as_array().unwrap().iter().map(|k| bytes_of(k, &[])).collect();
    let bounds: Vec<Option<Vec<u8>>> =
        script["bounds"].as_array().unwrap().iter().map(|k| opt_bytes_of(k, &[])).collect();
    for vw in script["views"].as_array().unwrap() {
        let segs = segs_of(&vw["path"]);
        for use_mut in [false, true] {
            // the mutable view must read the same as the read-only one
            let mut app2;
            let st: Box<dyn Storage + '_> = if use_mut {
                app2 = &mut app;
                view_mut(app2, &segs, alt)
            } else {
                view(&app, &segs, alt)
            };
            for (ki, k) in keys.iter().enumerate() {
                let want = opt_bytes_of(&vw["gets"][ki], &[]);
                let got = st.get(k);
                checks += 1;
                if got != want {
                    found.push(format!(
                        "view {} get({}) = {:?}, specification says {:?}",
                        vw["path"],
                        hex(k),
                        got.map(|v| hex(&v)),
                        want.map(|v| hex(&v))
                    ));
                }
            }
            for (si, s) in bounds.iter().enumerate() {
                for (ei, e) in bounds.iter().enumerate() {
                    for (oi, ord) in [Order::Ascending, Order::Descending].iter().enumerate() {
                        let want = pairs(&vw["ranges"][si][ei][oi]);
                        let got = catch_unwind(AssertUnwindSafe(|| {
                            st.range(s.as_deref(), e.as_deref(), *ord).take(10_000).collect::<Vec<_>>()
                        }));
                        checks += 1;
                        match got {
                            Ok(g) if g == want => {}
                            Ok(g) => found.push(format!(
                                "view {} range({:?},{:?},{:?}) = {:?}, specification says {:?}",
                                vw["path"],
                                s.as_ref().map(|x| hex(x)),
                                e.as_ref().map(|x| hex(x)),
                                ord,
                                hx(&g),
                                hx(&want)
                            )),
                            Err(_) => found.push(format!(
                                "view {} range({:?},{:?},{:?}) panicked",
                                vw["path"],
                                s.as_ref().map(|x| hex(x)),
                                e.as_ref().map(|x| hex(x)),
                                ord
                            )),
                        }
                    }
                }
            }
        }
    }
    (found, checks)
}

pub fn replay(path: &str) -> ! {
    let mut rep = Report::new("prefixed");
    let seed = seed();
    for script in records(path) {
        rep.scripts += 1;
        let alt = script
            .get("alt")
            .and_then(|a| a.as_bool())
            .unwrap_or((rep.scripts + seed) % 2 == 0);
        let (found, checks) = catch_unwind(AssertUnwindSafe(|| run_script(&script, alt)))
            .unwrap_or_else(|_| (vec!["panic while executing the script".to_string()], 1));
        rep.checks += checks;
        // non-trivial: at least two raw entries, or an entry outside some view
        if script["raw"].as_array().map(|a| a.len()).unwrap_or(0) >= 1 {
            rep.nontrivial_hash(&script["ops"]);
        }
        if !found.is_empty() {
            let mut s = script.clone();
            s["alt"] = json!(alt);
            // keep replay files small: drop the expectations that matched? no - keep self-contained
            rep.mismatch(&s, json!(found.iter().take(6).collect::<Vec<_>>()));
        }
        rep.sample(&json!({"ops": script["ops"], "alt": alt}));
    }
    rep.finish()
}

// ---------------------------------------------------------------------------------------------
// impl -> spec: random and directed operations with arbitrary byte namespaces, recorded for TLC

use rand::rngs::StdRng;
use rand::{Rng, SeedableRng};

fn jb(b: &[u8]) -> Value {
    json!(b.iter().map(|x| *x as u64).collect::<Vec<_>>())
}
fn jopt(b: &Option<Vec<u8>>) -> Value {
    match b {
        Some(b) => jb(b),
        None => json!([-1]),
    }
}
fn jpath(p: &[Vec<u8>]) -> Value {
    json!(p.iter().map(|s| jb(s)).collect::<Vec<_>>())
}

struct PDrv {
    rng: StdRng,
    segs: Vec<Vec<u8>>,
    keys: Vec<Vec<u8>>,
    paths: Vec<Vec<Vec<u8>>>,
}

impl PDrv {
    fn pick<T: Clone>(rng: &mut StdRng, v: &[T]) -> T {
        v[rng.gen_range(0..v.len())].clone()
    }
    fn bound(&mut self) -> Option<Vec<u8>> {
        if self.rng.gen_bool(0.35) {
            None
        } else {
            Some(Self::pick(&mut self.rng, &self.keys))
        }
    }
    fn observe(&mut self, app: &mut App, alt: bool, nq: usize) -> Value {
        let mut obs = vec![];
        if nq == 0 {
            // directed scenario: the whole window of every path, both orders
            for p in self.paths.clone() {
                for asc in [true, false] {
                    let ord = if asc { Order::Ascending } else { Order::Descending };
                    let r: Vec<Value> = view(app, &p, alt).range(None, None, ord)
                        .map(|(k, v)| json!([jb(&k), jb(&v)])).collect();
                    obs.push(json!({"q":"range","p":jpath(&p),"s":[-1],"e":[-1],
                                    "o": if asc {"asc"} else {"desc"},"k":[-1],"r":r}));
                }
            }
        }
        for _ in 0..nq {
            let p = Self::pick(&mut self.rng, &self.paths);
            let (s, e) = (self.bound(), self.bound());
            let asc = self.rng.gen_bool(0.5);
            let ord = if asc { Order::Ascending } else { Order::Descending };
            let r: Vec<Value> = if self.rng.gen_bool(0.5) {
                view(app, &p, alt).range(s.as_deref(), e.as_deref(), ord)
                    .map(|(k, v)| json!([jb(&k), jb(&v)])).collect()
            } else {
                view_mut(app, &p, alt).range(s.as_deref(), e.as_deref(), ord)
                    .map(|(k, v)| json!([jb(&k), jb(&v)])).collect()
            };
            obs.push(json!({"q":"range","p":jpath(&p),"s":jopt(&s),"e":jopt(&e),
                            "o": if asc {"asc"} else {"desc"},"k":[-1],"r":r}));
            let k = Self::pick(&mut self.rng, &self.keys);
            let g = view(app, &p, alt).get(&k);
            obs.push(json!({"q":"get","p":jpath(&p),"k":jb(&k),"s":[-1],"e":[-1],"o":"","r":jopt(&g)}));
        }
        json!(obs)
    }
}

fn raw_json(app: &App) -> Value {
    json!(dump(app).iter().map(|(k, v)| json!([jb(k), jb(v)])).collect::<Vec<_>>())
}

/// `n` runs of `len` operations; run 0 is the directed long-segment scenario
pub fn drive(n: usize, len: usize, out: &str) -> ! {
    use std::io::Write;
    let mut f = std::io::BufWriter::new(
        std::fs::File::create(out).unwrap_or_else(|e| tool_error(&format!("{out}: {e}"))),
    );
    let mut rng = StdRng::seed_from_u64(seed());
    let mut events = 0u64;
    for run in 0..n {
        let directed = run == 0;
        let mut segs: Vec<Vec<u8>> = vec![vec![], vec![0], vec![255], vec![255, 255], vec![0, 1], b"bank".to_vec(), b"wasm".to_vec()];
        for _ in 0..4 {
            let l = rng.gen_range(1..4);
            segs.push((0..l).map(|_| *[0u8, 1, 2, 254, 255].get(rng.gen_range(0..5)).unwrap()).collect());
        }
        if directed {
            // maximal bytes everywhere: the longest segment, segments whose length byte is 0xFF, short ones
            segs = vec![vec![255u8; 65535], vec![255u8; 255], vec![255u8; 511], vec![255], vec![]];
        }
        let mut paths: Vec<Vec<Vec<u8>>> = vec![vec![]];
        for s in &segs {
            paths.push(vec![s.clone()]);
        }
        for _ in 0..6 {
            let a = segs[rng.gen_range(0..segs.len())].clone();
            let b = segs[rng.gen_range(0..segs.len())].clone();
            if directed {
                continue;
            }
            paths.push(vec![a, b]);
        }
        if directed {
            paths.push(vec![vec![255u8; 255], vec![255u8; 65535]]);
            paths.push(vec![vec![255u8; 255], vec![255u8]]);
            paths.push(vec![vec![], vec![255u8; 255]]);
        }
        // keys: short byte strings, plus keys that spell the raw encoding of other paths
        let mut keys: Vec<Vec<u8>> = vec![vec![], vec![0], vec![255], vec![0, 0], vec![255, 255]];
        for p in paths.iter().filter(|p| p.iter().all(|s| s.len() < 8)).take(8) {
            let mut k = vec![];
            for s in p {
                k.extend_from_slice(&[(s.len() >> 8) as u8, (s.len() & 255) as u8]);
                k.extend_from_slice(s);
            }
            keys.push(k.clone());
            k.push(7);
            keys.push(k);
        }
        let mut d = PDrv { rng: StdRng::seed_from_u64(rng.gen()), segs, keys, paths };
        let _ = &d.segs;
        let mut app = App::default();
        let reset = json!({"ev":"reset","p":[],"k":[-1],"v":[-1],"res":"ok","raw":[],"obs":[]});
        writeln!(f, "{}", reset).unwrap();
        events += 1;
        let steps = if directed { d.paths.len() } else { len };
        for step in 0..steps {
            let alt = d.rng.gen_bool(0.5);
            // the directed run writes one entry through every path, then looks at all of them
            let p = if directed { d.paths[step].clone() } else { PDrv::pick(&mut d.rng, &d.paths) };
            let k = if directed { vec![1u8] } else { PDrv::pick(&mut d.rng, &d.keys) };
            let c = if directed { 0 } else { d.rng.gen_range(0..100) };
            let (ev, v, res) = if c < 60 {
                let v = vec![d.rng.gen_range(1..=255u8)];
                if p.is_empty() && alt {
                    app.storage_mut().set(&k, &v);
                } else {
                    view_mut(&mut app, &p, alt).set(&k, &v);
                }
                ("set", jb(&v), "ok")
            } else if c < 85 {
                if p.is_empty() && alt {
                    app.storage_mut().remove(&k);
                } else {
                    view_mut(&mut app, &p, alt).remove(&k);
                }
                ("remove", json!([-1]), "ok")
            } else {
                let is_set = d.rng.gen_bool(0.5);
                let r = catch_unwind(AssertUnwindSafe(|| {
                    let mut vw = view(&app, &p, alt);
                    if is_set {
                        vw.set(&k, b"x")
                    } else {
                        vw.remove(&k)
                    }
                }));
                (if is_set { "ro_set" } else { "ro_remove" }, json!([-1]), if r.is_err() { "rejected" } else { "accepted" })
            };
            let obs = d.observe(&mut app, alt, if directed { 0 } else { 3 });
            let e = json!({"ev":ev,"p":jpath(&p),"k":jb(&k),"v":v,"res":res,"raw":raw_json(&app),"obs":obs});
            writeln!(f, "{}", e).unwrap();
            events += 1;
        }
    }
    f.flush().unwrap();
    println!("MTV-REPORT {}", json!({"layer":"prefixed","runs":n,"events":events,"mismatch_count":0}));
    std::process::exit(0)
}
