//! C18 — address helpers.  `drive`: calls addr_humanize / addr_canonicalize / addr_validate /
//! addr_make of MockApiBech32, MockApiBech32m and the default MockApi and the IntoAddr /
//! IntoBech32 / IntoBech32m conversions on generated prefixes, byte strings, names and on
//! corruptions of valid addresses (single-character substitutions, case flips, the other checksum
//! variant, other prefixes incl. prefixes of the own prefix); every call with its result is
//! logged for TLC, which recomputes it with spec/Bech32.tla.

use crate::common::*;
use cosmwasm_std::testing::MockApi;
use cosmwasm_std::{Api, CanonicalAddr};
use cw_multi_test::{IntoAddr, IntoBech32, IntoBech32m, MockApiBech32, MockApiBech32m};
use rand::rngs::StdRng;
use rand::{Rng, SeedableRng};
use serde_json::{json, Value};
use std::io::Write;
use std::panic::{catch_unwind, AssertUnwindSafe};

fn codes(s: &str) -> Value {
    json!(s.bytes().map(|b| b as u64).collect::<Vec<_>>())
}
fn bytesj(b: &[u8]) -> Value {
    json!(b.iter().map(|x| *x as u64).collect::<Vec<_>>())
}

fn leak(s: &str) -> &'static str {
    Box::leak(s.to_string().into_boxed_str())
}

enum Codec {
    B32(MockApiBech32),
    B32m(MockApiBech32m),
    Def(MockApi),
}

impl Codec {
    fn new(kind: &str, prefix: &'static str) -> Codec {
        match kind {
            "bech32" => Codec::B32(MockApiBech32::new(prefix)),
            "bech32m" => Codec::B32m(MockApiBech32m::new(prefix)),
            _ => Codec::Def(MockApi::default().with_prefix(prefix)),
        }
    }
    fn api(&self) -> &dyn Api {
        match self {
            Codec::B32(a) => a,
            Codec::B32m(a) => a,
            Codec::Def(a) => a,
        }
    }
    fn make(&self, name: &str) -> String {
        match self {
            Codec::B32(a) => a.addr_make(name).to_string(),
            Codec::B32m(a) => a.addr_make(name).to_string(),
            Codec::Def(a) => a.addr_make(name).to_string(),
        }
    }
}

struct Log {
    f: std::io::BufWriter<std::fs::File>,
    n: u64,
}

impl Log {
    fn ev(&mut self, op: &str, kind: &str, prefix: &str, input: Value, res: Result<Result<Value, ()>, ()>) {
        let (ok, out) = match res {
            Ok(Ok(v)) => ("true", v),
            Ok(Err(())) => ("false", json!([])),
            Err(()) => ("panic", json!([])),
        };
        writeln!(self.f, "{}", json!({"op": op, "codec": kind, "prefix": codes(prefix), "input": input, "ok": ok, "out": out})).unwrap();
        self.n += 1;
    }
    fn validate(&mut self, c: &Codec, kind: &str, prefix: &str, s: &str) {
        let r = catch_unwind(AssertUnwindSafe(|| c.api().addr_validate(s).map(|a| codes(a.as_str())).map_err(|_| ()))).map_err(|_| ());
        self.ev("validate", kind, prefix, codes(s), r);
    }
    fn canonicalize(&mut self, c: &Codec, kind: &str, prefix: &str, s: &str) {
        let r = catch_unwind(AssertUnwindSafe(|| c.api().addr_canonicalize(s).map(|a| bytesj(a.as_slice())).map_err(|_| ()))).map_err(|_| ());
        self.ev("canonicalize", kind, prefix, codes(s), r);
    }
    fn humanize(&mut self, c: &Codec, kind: &str, prefix: &str, b: &[u8]) -> Option<String> {
        let r = catch_unwind(AssertUnwindSafe(|| c.api().addr_humanize(&CanonicalAddr::from(b.to_vec())).map(|a| a.to_string()).map_err(|_| ()))).map_err(|_| ());
        let out = match &r {
            Ok(Ok(s)) => Some(s.clone()),
            _ => None,
        };
        self.ev("humanize", kind, prefix, bytesj(b), r.map(|x| x.map(|s| codes(&s))));
        out
    }
    fn make(&mut self, c: &Codec, kind: &str, prefix: &str, name: &str) -> Option<String> {
        let r = catch_unwind(AssertUnwindSafe(|| c.make(name))).map_err(|_| ());
        let out = r.clone().ok();
        self.ev("make", kind, prefix, codes(name), r.map(|s| Ok(codes(&s))));
        out
    }
}

const CHARSET: &str = "qpzry9x8gf2tvdw0s3jn54khce6mua7l";
const OUTSIDE: &str = "bio1-Q";

fn polymod(v: &[u8]) -> u32 {
    const GEN: [u32; 5] = [0x3b6a57b2, 0x26508e6d, 0x1ea119fa, 0x3d4233dd, 0x2a1462b3];
    let mut chk: u32 = 1;
    for x in v {
        let top = chk >> 25;
        chk = ((chk & 0x1ffffff) << 5) ^ (*x as u32);
        for (i, g) in GEN.iter().enumerate() {
            if (top >> i) & 1 == 1 {
                chk ^= g;
            }
        }
    }
    chk
}

/// Correctly checksummed strings that no encoder writes, derived from the valid lower-case address `s` of a codec with
/// checksum constant `konst`: the last data group with a padding bit set (when the byte length leaves padding bits), and a
/// superfluous all-zero padding group appended. They differ from `s` in more than one character (the checksum is recomputed).
fn noncanonical_padding(s: &str, konst: u32) -> Vec<String> {
    let cs: Vec<char> = CHARSET.chars().collect();
    let sep = match s.rfind('1') {
        Some(i) => i,
        None => return vec![],
    };
    let (hrp, rest) = (&s[..sep], &s[sep + 1..]);
    let vals: Option<Vec<u8>> = rest.chars().map(|c| cs.iter().position(|x| *x == c).map(|i| i as u8)).collect();
    let vals = match vals {
        Some(v) if v.len() > 6 => v,
        _ => return vec![],
    };
    let data = &vals[..vals.len() - 6];
    let mut variants: Vec<Vec<u8>> = vec![];
    if (data.len() * 5) % 8 != 0 {
        let mut d = data.to_vec();
        *d.last_mut().unwrap() |= 1;
        variants.push(d);
    }
    let mut d = data.to_vec();
    d.push(0);
    variants.push(d);
    let mut out = vec![];
    for d in variants {
        let mut v: Vec<u8> = hrp.bytes().map(|b| b >> 5).collect();
        v.push(0);
        v.extend(hrp.bytes().map(|b| b & 31));
        v.extend(&d);
        v.extend([0u8; 6]);
        let pm = polymod(&v) ^ konst;
        let mut t = format!("{hrp}1");
        for x in d.iter() {
            t.push(cs[*x as usize]);
        }
        for i in 0..6 {
            t.push(cs[((pm >> (5 * (5 - i))) & 31) as usize]);
        }
        out.push(t);
    }
    out
}

/// `level` 1 = quick (sampled corruptions), 2 = thorough (every position x every substitute)
pub fn drive(n_prefixes: usize, level: usize, out: &str) -> ! {
    let f = std::io::BufWriter::new(std::fs::File::create(out).unwrap_or_else(|e| tool_error(&format!("{out}: {e}"))));
    let mut log = Log { f, n: 0 };
    let mut rng = StdRng::seed_from_u64(seed());
    let alnum: Vec<char> = "abcdefghijklmnopqrstuvwxyz0123456789".chars().collect();
    // (a `1` inside or at the end of a prefix is legal: only the LAST `1` of an address is the separator)
    let mut prefixes: Vec<String> = vec!["cosmwasm".into(), "a".into(), "osmo".into(), "osmosis".into(), "j1n".into(), "osmo1".into(), "x1".into(), "1".into()];
    for _ in 0..n_prefixes {
        let l = rng.gen_range(1..=10);
        let p: String = (0..l).map(|i| if i == 0 { alnum[rng.gen_range(0..26)] } else { alnum[rng.gen_range(0..36)] }).collect();
        prefixes.push(p);
    }
    let names = ["", "owner", "creator", "a", "ab", "contract0", "\u{e9}\u{436}", "name with spaces", "OWNER"];
    for (pi, p) in prefixes.iter().enumerate() {
        let ps = leak(p);
        for kind in ["bech32", "bech32m", "default"] {
            let c = Codec::new(kind, ps);
            let other_kind = if kind == "bech32m" { "bech32" } else { "bech32m" };
            let other = Codec::new(other_kind, ps);
            // names
            let mut made = vec![];
            for nm in names.iter().take(if level > 1 || pi < 8 { names.len() } else { 3 }) {
                if let Some(a) = log.make(&c, kind, p, nm) {
                    made.push(a);
                }
                // the conversions are the same function
                let conv = catch_unwind(AssertUnwindSafe(|| match kind {
                    "bech32" => nm.into_bech32_with_prefix(ps).to_string(),
                    "bech32m" => nm.into_bech32m_with_prefix(ps).to_string(),
                    _ => nm.into_addr_with_prefix(ps).to_string(),
                }))
                .map_err(|_| ());
                log.ev("make", kind, p, codes(nm), conv.map(|s| Ok(codes(&s))));
                if p == "cosmwasm" {
                    let conv = catch_unwind(AssertUnwindSafe(|| match kind {
                        "bech32" => nm.into_bech32().to_string(),
                        "bech32m" => nm.into_bech32m().to_string(),
                        _ => nm.into_addr().to_string(),
                    }))
                    .map_err(|_| ());
                    log.ev("make", kind, p, codes(nm), conv.map(|s| Ok(codes(&s))));
                }
            }
            // byte strings
            let mut lens = vec![1usize, 20, 32, 64];
            for _ in 0..(if level > 1 { 6 } else { 2 }) {
                lens.push(rng.gen_range(1..=64));
            }
            let mut addrs: Vec<String> = made.clone();
            for l in lens {
                let b: Vec<u8> = (0..l).map(|_| *[0u8, 1, 127, 255, rng.gen()].get(rng.gen_range(0..5)).unwrap()).collect();
                if let Some(s) = log.humanize(&c, kind, p, &b) {
                    log.canonicalize(&c, kind, p, &s);
                    log.validate(&c, kind, p, &s);
                    addrs.push(s);
                }
                // the other checksum variant must be rejected
                if let Ok(s2) = other.api().addr_humanize(&CanonicalAddr::from(b.clone())) {
                    log.validate(&c, kind, p, s2.as_str());
                    log.canonicalize(&c, kind, p, s2.as_str());
                }
            }
            // other prefixes, in particular prefixes that extend / are extended by this one
            for q in prefixes.iter().filter(|q| *q != p).take(if level > 1 { 12 } else { 5 }) {
                let cq = Codec::new(kind, leak(q));
                let a = cq.make("owner");
                log.validate(&c, kind, p, &a);
                log.canonicalize(&c, kind, p, &a);
            }
            for q in [format!("{p}x"), p[..p.len().saturating_sub(1)].to_string(), format!("x{p}")] {
                if q.is_empty() || &q == p {
                    continue;
                }
                let cq = Codec::new(kind, leak(&q));
                if let Ok(a) = catch_unwind(AssertUnwindSafe(|| cq.make("owner"))) {
                    log.validate(&c, kind, p, &a);
                    log.canonicalize(&c, kind, p, &a);
                }
            }
            // corruptions of valid addresses
            let n_addr = if level > 1 { 3 } else { 1 };
            for s in addrs.iter().take(n_addr) {
                let chars: Vec<char> = s.chars().collect();
                let subs: Vec<char> = CHARSET.chars().chain(OUTSIDE.chars()).collect();
                for pos in 0..chars.len() {
                    let picks: Vec<char> = if level > 1 {
                        subs.clone()
                    } else {
                        (0..2).map(|_| subs[rng.gen_range(0..subs.len())]).collect()
                    };
                    for sc in picks {
                        if sc == chars[pos] {
                            continue;
                        }
                        let mut t = chars.clone();
                        t[pos] = sc;
                        let t: String = t.into_iter().collect();
                        log.validate(&c, kind, p, &t);
                    }
                    // case flip of one character
                    if chars[pos].is_ascii_lowercase() && (level > 1 || pos % 4 == 0) {
                        let mut t = chars.clone();
                        t[pos] = t[pos].to_ascii_uppercase();
                        let t: String = t.into_iter().collect();
                        log.validate(&c, kind, p, &t);
                        if pos % 8 == 0 {
                            log.canonicalize(&c, kind, p, &t);
                        }
                    }
                }
                // everything in upper case (the named don't-care), truncated, extended
                log.validate(&c, kind, p, &s.to_ascii_uppercase());
                log.canonicalize(&c, kind, p, &s.to_ascii_uppercase());
                log.validate(&c, kind, p, &s[..s.len() - 1]);
                log.validate(&c, kind, p, &format!("{s}q"));
                log.validate(&c, kind, p, "");
                log.validate(&c, kind, p, &s[p.len() + 1..]);
            }
            // correctly checksummed strings with non-canonical padding (validate only: if accepted, returned unchanged)
            for s in addrs.iter().filter(|s| !s.chars().any(|ch| ch.is_ascii_uppercase())) {
                for t in noncanonical_padding(s, if kind == "bech32m" { 0x2bc830a3 } else { 1 }) {
                    log.validate(&c, kind, p, &t);
                }
            }
        }
    }
    log.f.flush().unwrap();
    println!("MTV-REPORT {}", json!({"layer":"bech","runs":prefixes.len(),"events":log.n,"mismatch_count":0}));
    std::process::exit(0)
}
