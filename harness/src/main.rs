//! mtv — conformance harness binding the TLA+ specifications in /verif/spec to cw-multi-test.
//!
//!   mtv replay <layer> <scripts.ndjson | ->     spec -> impl: run TLC-generated scripts
//!   mtv drive  <layer> <n> <len> <out.ndjson>   impl -> spec: record random executions
mod bank;
mod bech;
mod builder;
mod chain;
mod common;
mod overlay;
mod prefixed;
mod staking;

fn main() {
    let args: Vec<String> = std::env::args().collect();
    let a = |i: usize| args.get(i).map(|s| s.as_str()).unwrap_or("");
    if std::env::var("MTV_PANIC").is_err() {
        std::panic::set_hook(Box::new(|_| {}));
    }
    match (a(1), a(2)) {
        ("replay", "overlay") => overlay::replay(a(3)),
        ("replay", "prefixed") => prefixed::replay(a(3)),
        ("replay", "chain") => chain::replay(a(3)),
        ("replay", "twin") => chain::twin(a(3)),
        ("replay", "twin-staking") => staking::twin(a(3)),
        ("replay", "staking") => staking::replay(a(3)),
        ("replay", "builder") => builder::replay(a(3)),
        ("replay", "bank") => bank::replay(a(3)),
        ("drive", "bank") => bank::drive(a(3).parse().unwrap_or(10), a(4).parse().unwrap_or(50), a(5)),
        ("drive", "bech") => bech::drive(a(3).parse().unwrap_or(5), a(4).parse().unwrap_or(1), a(5)),
        ("drive", "chain") => chain::drive(a(3).parse().unwrap_or(5), a(4).parse().unwrap_or(10), a(5), false),
        ("drive", "chain-stake") => chain::drive(a(3).parse().unwrap_or(5), a(4).parse().unwrap_or(10), a(5), true),
        ("drive", "overlay") => overlay::drive(
            a(3).parse().unwrap_or(10),
            a(4).parse().unwrap_or(50),
            a(5),
        ),
        ("drive", "prefixed") => prefixed::drive(
            a(3).parse().unwrap_or(10),
            a(4).parse().unwrap_or(50),
            a(5),
        ),
        _ => common::tool_error(&format!("usage: mtv replay|drive <layer> ... (got {:?})", &args[1..])),
    }
}
