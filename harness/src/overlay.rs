//! C06 — the transactional overlay (`transactions::StorageTransaction`, `transactional`).
//!
//! `replay`: executes TLC-generated operation sequences (spec/Overlay.tla) on a real stack of
//! write-caches and compares the whole read battery at every level with the answers printed by
//! TLC.  `drive`: random operation sequences with arbitrary byte keys, recorded as a trace that
//! TLC validates against the same specification (spec/trace/Trace_Overlay.tla).

use crate::common::*;
use cosmwasm_std::testing::MockStorage;
use cosmwasm_std::{Order, Storage};
use cw_multi_test::verif::{transactional, StorageTransaction};
use rand::rngs::StdRng;
use rand::{Rng, SeedableRng};
use serde_json::{json, Value};

const ALPHABETS: &[&[u8]] = &[
    &[0x00, 0x01, 0xFF],
    &[0x00, 0x80, 0xFF],
    &[0x01, 0x02, 0x03],
    &[0x00, 0xFE, 0xFF],
    &[0x61, 0x62, 0x63],
];

enum Exit {
    Commit,
    Discard,
    End,
}

struct Ctx<'a> {
    script: &'a Value,
    ops: &'a [Value],
    alpha: &'a [u8],
    /// observations made when the operations ran out: per level (bottom first)
    found: Vec<String>,
    checks: u64,
}

fn range_to_json(it: Box<dyn Iterator<Item = (Vec<u8>, Vec<u8>)> + '_>) -> Vec<(Vec<u8>, Vec<u8>)> {
    it.take(10_000).collect()
}

impl Ctx<'_> {
    /// compare every read at every level with the expectation in the script
    fn battery(&mut self, levels: &[&dyn Storage]) {
        let exp = self.script["levels"].as_array().unwrap();
        if exp.len() != levels.len() {
            self.found.push(format!(
                "depth differs: spec {} impl {}",
                exp.len(),
                levels.len()
            ));
            return;
        }
        let keys: Vec<Vec<u8>> = self.script["keys"]
            .as_array()
            .unwrap()
            .iter()
            .map(|k| bytes_of(k, self.alpha))
            .collect();
        let bounds: Vec<Option<Vec<u8>>> = self.script["bounds"]
            .as_array()
            .unwrap()
            .iter()
            .map(|k| opt_bytes_of(k, self.alpha))
            .collect();
        for (li, (st, ex)) in levels.iter().zip(exp.iter()).enumerate() {
            // gets
            for (ki, k) in keys.iter().enumerate() {
                let want = opt_bytes_of(&ex["gets"][ki], &[]);
                let got = st.get(k);
                self.checks += 1;
                if got != want {
                    self.found.push(format!(
                        "level {li} get({}) = {:?}, specification says {:?}",
                        hex(k),
                        got.map(|v| hex(&v)),
                        want.map(|v| hex(&v))
                    ));
                }
            }
            // ranges
            for (si, s) in bounds.iter().enumerate() {
                for (ei, e) in bounds.iter().enumerate() {
                    for (oi, ord) in [Order::Ascending, Order::Descending].iter().enumerate() {
                        let want: Vec<(Vec<u8>, Vec<u8>)> = ex["ranges"][si][ei][oi]
                            .as_array()
                            .unwrap()
                            .iter()
                            .map(|p| (bytes_of(&p[0], self.alpha), bytes_of(&p[1], &[])))
                            .collect();
                        let got = std::panic::catch_unwind(std::panic::AssertUnwindSafe(|| {
                            range_to_json(st.range(s.as_deref(), e.as_deref(), *ord))
                        }));
                        self.checks += 1;
                        match got {
                            Ok(g) if g == want => {}
                            Ok(g) => self.found.push(format!(
                                "level {li} range({:?},{:?},{:?}) = {:?}, specification says {:?}",
                                s.as_ref().map(|x| hex(x)),
                                e.as_ref().map(|x| hex(x)),
                                ord,
                                g.iter().map(|(k, v)| (hex(k), hex(v))).collect::<Vec<_>>(),
                                want.iter().map(|(k, v)| (hex(k), hex(v))).collect::<Vec<_>>()
                            )),
                            Err(_) => self.found.push(format!(
                                "level {li} range({:?},{:?},{:?}) panicked",
                                s.as_ref().map(|x| hex(x)),
                                e.as_ref().map(|x| hex(x)),
                                ord
                            )),
                        }
                    }
                }
            }
        }
    }

    /// run operations from `pos` on `top`; `below` are the levels under it (bottom first)
    fn run(&mut self, top: &mut dyn Storage, below: &[&dyn Storage], pos: &mut usize) -> Exit {
        loop {
            if *pos >= self.ops.len() {
                let mut all: Vec<&dyn Storage> = below.to_vec();
                all.push(&*top);
                self.battery(&all);
                return Exit::End;
            }
            let op = &self.ops[*pos];
            *pos += 1;
            match op["a"].as_str().unwrap() {
                "write" => {
                    let k = bytes_of(&op["op"]["k"], self.alpha);
                    if op["op"]["t"] == "set" {
                        top.set(&k, &bytes_of(&op["op"]["v"], &[]));
                    } else {
                        top.remove(&k);
                    }
                }
                "commit" => return Exit::Commit,
                "discard" => return Exit::Discard,
                "push" => {
                    if op["via"] == "tx" {
                        let mut inner_exit = Exit::End;
                        let res = transactional(top, |cache, read| {
                            let mut b2: Vec<&dyn Storage> = below.to_vec();
                            b2.push(read);
                            let ex = self.run(cache, &b2, pos);
                            let r = match ex {
                                Exit::Commit => Ok(()),
                                _ => Err(anyhow::anyhow!("rollback")),
                            };
                            inner_exit = ex;
                            r
                        });
                        match inner_exit {
                            Exit::End => return Exit::End,
                            Exit::Commit => {
                                if res.is_err() {
                                    self.found.push("transactional() lost an Ok result".into());
                                }
                            }
                            Exit::Discard => {
                                if res.is_ok() {
                                    self.found.push("transactional() turned Err into Ok".into());
                                }
                            }
                        }
                    } else {
                        let exit;
                        let log;
                        {
                            let lower: &dyn Storage = &*top;
                            let mut tx = StorageTransaction::new(lower);
                            let mut b2: Vec<&dyn Storage> = below.to_vec();
                            b2.push(lower);
                            exit = self.run(&mut tx, &b2, pos);
                            log = match exit {
                                Exit::Commit => Some(tx.prepare()),
                                _ => None,
                            };
                        }
                        match exit {
                            Exit::End => return Exit::End,
                            Exit::Commit => log.unwrap().commit(top),
                            Exit::Discard => {}
                        }
                    }
                }
                other => tool_error(&format!("unknown overlay op {other}")),
            }
        }
    }
}

fn nontrivial(script: &Value) -> bool {
    // some read distinguishes the top level from the base
    let l = script["levels"].as_array().unwrap();
    l.len() >= 2 && l[0]["flat"] != l[l.len() - 1]["flat"]
}

pub fn replay(path: &str) -> ! {
    let mut rep = Report::new("overlay");
    let seed = seed();
    for script in records(path) {
        rep.scripts += 1;
        let alpha = script
            .get("alpha")
            .and_then(|a| a.as_array())
            .map(|a| a.iter().map(|x| x.as_u64().unwrap() as u8).collect::<Vec<u8>>())
            .unwrap_or_else(|| {
                ALPHABETS[((rep.scripts + seed) % ALPHABETS.len() as u64) as usize].to_vec()
            });
        let ops = script["ops"].as_array().cloned().unwrap_or_default();
        let mut ctx = Ctx { script: &script, ops: &ops, alpha: &alpha, found: vec![], checks: 0 };
        let mut base = MockStorage::new();
        let mut pos = 0usize;
        let res = std::panic::catch_unwind(std::panic::AssertUnwindSafe(|| {
            ctx.run(&mut base, &[], &mut pos);
        }));
        if res.is_err() {
            ctx.found.push("panic while executing the operations".into());
        }
        rep.checks += ctx.checks;
        if nontrivial(&script) {
            rep.nontrivial_hash(&script["ops"]);
        }
        if !ctx.found.is_empty() {
            let mut s = script.clone();
            s["alpha"] = json!(alpha);
            let f = json!(ctx.found.iter().take(5).collect::<Vec<_>>());
            rep.mismatch(&s, f);
        }
        rep.sample(&json!({"ops": script["ops"], "alpha": alpha}));
    }
    rep.finish()
}

// ---------------------------------------------------------------------------------------------
// impl -> spec: random operations with arbitrary byte keys, recorded for TLC

struct Drv {
    rng: StdRng,
    keys: Vec<Vec<u8>>,
    out: Vec<Value>,
    budget: usize,
    max_depth: usize,
}

fn jb(b: &[u8]) -> Value {
    json!(b.iter().map(|x| *x as u64).collect::<Vec<_>>())
}
fn jopt(b: &Option<Vec<u8>>) -> Value {
    match b {
        Some(b) => jb(b),
        None => json!([-1]),
    }
}

impl Drv {
    fn key(&mut self) -> Vec<u8> {
        let i = self.rng.gen_range(0..self.keys.len());
        self.keys[i].clone()
    }
    fn bound(&mut self) -> Option<Vec<u8>> {
        if self.rng.gen_bool(0.3) {
            None
        } else {
            Some(self.key())
        }
    }
    /// a few reads at random levels, recorded as observations of the last event
    fn observe(&mut self, levels: &[&dyn Storage]) -> Value {
        let mut obs = vec![];
        for _ in 0..3 {
            let li = self.rng.gen_range(0..levels.len());
            let k = self.key();
            obs.push(json!({"q":"get","level":li,"k":jb(&k),"r":jopt(&levels[li].get(&k))}));
            let (s, e) = (self.bound(), self.bound());
            let asc = self.rng.gen_bool(0.5);
            let ord = if asc { Order::Ascending } else { Order::Descending };
            let r: Vec<Value> = levels[li]
                .range(s.as_deref(), e.as_deref(), ord)
                .map(|(k, v)| json!([jb(&k), jb(&v)]))
                .collect();
            obs.push(json!({"q":"range","level":li,"s":jopt(&s),"e":jopt(&e),
                            "o": if asc {"asc"} else {"desc"},"r":r}));
        }
        // the full ascending dump of the top level
        let li = levels.len() - 1;
        let r: Vec<Value> = levels[li]
            .range(None, None, Order::Ascending)
            .map(|(k, v)| json!([jb(&k), jb(&v)]))
            .collect();
        obs.push(json!({"q":"range","level":li,"s":[-1],"e":[-1],"o":"asc","r":r}));
        json!(obs)
    }

    fn run(&mut self, top: &mut dyn Storage, below: &[&dyn Storage]) -> Exit {
        loop {
            if self.budget == 0 {
                return Exit::End;
            }
            self.budget -= 1;
            let depth = below.len();
            let c = self.rng.gen_range(0..100);
            if c < 55 {
                let k = self.key();
                let set = self.rng.gen_bool(0.65);
                let v = vec![self.rng.gen_range(1..=255u8); self.rng.gen_range(1..3)];
                if set {
                    top.set(&k, &v);
                } else {
                    top.remove(&k);
                }
                let mut all: Vec<&dyn Storage> = below.to_vec();
                all.push(&*top);
                let obs = self.observe(&all);
                self.out.push(json!({"ev":"write","t": if set {"set"} else {"del"},
                    "k":jb(&k),"v": if set { jb(&v) } else { json!([-1]) },"obs":obs}));
            } else if c < 75 && depth < self.max_depth {
                let via_tx = self.rng.gen_bool(0.5);
                self.out.push(json!({"ev":"push","via": if via_tx {"tx"} else {"raw"},"t":"","k":[-1],"v":[-1],"obs":[]}));
                if via_tx {
                    let mut ex = Exit::End;
                    let _ = transactional(top, |cache, read| {
                        let mut b2: Vec<&dyn Storage> = below.to_vec();
                        b2.push(read);
                        let e = self.run(cache, &b2);
                        let r = match e {
                            Exit::Commit => Ok(()),
                            _ => Err(anyhow::anyhow!("rollback")),
                        };
                        ex = e;
                        r
                    });
                    if let Exit::End = ex {
                        return Exit::End;
                    }
                } else {
                    let exit;
                    let log;
                    {
                        let lower: &dyn Storage = &*top;
                        let mut tx = StorageTransaction::new(lower);
                        let mut b2: Vec<&dyn Storage> = below.to_vec();
                        b2.push(lower);
                        exit = self.run(&mut tx, &b2);
                        log = match exit {
                            Exit::Commit => Some(tx.prepare()),
                            _ => None,
                        };
                    }
                    match exit {
                        Exit::End => return Exit::End,
                        Exit::Commit => log.unwrap().commit(top),
                        Exit::Discard => {}
                    }
                }
                // after the cache is gone: observe again
                let mut all: Vec<&dyn Storage> = below.to_vec();
                all.push(&*top);
                let obs = self.observe(&all);
                self.out.push(json!({"ev":"look","t":"","k":[-1],"v":[-1],"via":"","obs":obs}));
            } else if depth > 0 {
                let commit = self.rng.gen_bool(0.6);
                self.out.push(json!({"ev": if commit {"commit"} else {"discard"},"t":"","k":[-1],"v":[-1],"via":"","obs":[]}));
                return if commit { Exit::Commit } else { Exit::Discard };
            }
        }
    }
}

/// writes `n` runs, separated by `reset` events, to `out`
pub fn drive(n: usize, len: usize, out: &str) -> ! {
    use std::io::Write;
    let mut f = std::io::BufWriter::new(
        std::fs::File::create(out).unwrap_or_else(|e| tool_error(&format!("{out}: {e}"))),
    );
    let mut rng = StdRng::seed_from_u64(seed());
    let mut events = 0u64;
    for run in 0..n {
        // key pool: adversarial bytes, prefixes of each other, the empty key
        let mut keys: Vec<Vec<u8>> = vec![vec![], vec![0], vec![0, 0], vec![255], vec![255, 255], vec![0, 255]];
        for _ in 0..6 {
            let l = rng.gen_range(1..4);
            let k: Vec<u8> = (0..l).map(|_| *[0u8, 1, 127, 254, 255].get(rng.gen_range(0..5)).unwrap()).collect();
            keys.push(k);
        }
        let mut d = Drv {
            rng: StdRng::seed_from_u64(rng.gen()),
            keys,
            out: vec![json!({"ev":"reset","t":"","k":[-1],"v":[-1],"via":"","obs":[],"run":run})],
            budget: len,
            max_depth: 4,
        };
        let mut base = MockStorage::new();
        d.run(&mut base, &[]);
        for e in &d.out {
            let mut e = e.clone();
            if e.get("via").is_none() {
                e["via"] = json!("");
            }
            writeln!(f, "{}", e).unwrap();
            events += 1;
        }
    }
    f.flush().unwrap();
    println!("MTV-REPORT {}", json!({"layer":"overlay","runs":n,"events":events,"mismatch_count":0}));
    std::process::exit(0)
}
